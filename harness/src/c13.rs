//! C13: sampling validated distributions at parameter corners under scripted
//! RNG prefixes, each case in a child process that is killed when it does not
//! return (a hang inside a sampler is a concrete failing input). The raw
//! sampler values (hook tape) are replayed through the model's clamp.
use crate::enc::*;
use crate::rng::{ScriptRng, SplitMix64};
use maybenot::dist::{Dist, DistType};
use maybenot::verif;
use std::io::{Read, Write};
use std::process::{Command, Stdio};
use std::time::{Duration, Instant};

pub fn dec_dist(t: &[u64]) -> Dist {
    let f = f64::from_bits;
    let dt = match t[0] {
        0 => DistType::Uniform { low: f(t[1]), high: f(t[2]) },
        1 => DistType::Normal { mean: f(t[1]), stdev: f(t[2]) },
        2 => DistType::SkewNormal { location: f(t[1]), scale: f(t[2]), shape: f(t[3]) },
        3 => DistType::LogNormal { mu: f(t[1]), sigma: f(t[2]) },
        4 => DistType::Binomial { trials: t[1], probability: f(t[2]) },
        5 => DistType::Geometric { probability: f(t[1]) },
        6 => DistType::Pareto { scale: f(t[1]), shape: f(t[2]) },
        7 => DistType::Poisson { lambda: f(t[1]) },
        8 => DistType::Weibull { scale: f(t[1]), shape: f(t[2]) },
        9 => DistType::Gamma { scale: f(t[1]), shape: f(t[2]) },
        _ => DistType::Beta { alpha: f(t[1]), beta: f(t[2]) },
    };
    Dist::new(dt, f(t[4]), f(t[5]))
}

const DAY: f64 = 86_400_000_000.0;

/// child: sample and print "raw final_day final_round final_trunc" per sample
pub fn worker(args: &[String]) {
    let toks: Vec<u64> = args[0].split(',').map(|s| u64::from_str_radix(s, 16).unwrap()).collect();
    let script: Vec<u64> = if args[1].is_empty() { vec![] } else { args[1].split(',').map(|s| u64::from_str_radix(s, 16).unwrap()).collect() };
    let seed: u64 = args[2].parse().unwrap();
    let count: usize = args[3].parse().unwrap();
    let d = dec_dist(&toks);
    let mut rng = ScriptRng::new(script, seed);
    verif::arm(0);
    let out = std::io::stdout();
    let mut out = out.lock();
    for _ in 0..count {
        let v = d.sample(&mut rng);
        let (tape, _, _) = verif::take();
        let raw = tape.last().map(|x| x.1).unwrap_or(0);
        writeln!(out, "{:x} {:x} {:x} {:x} {:x}", raw, v.min(DAY).round() as u64, v.round() as u64, v as u64, v.to_bits()).unwrap();
    }
}

fn corner(r: &mut SplitMix64, pool: &[f64]) -> f64 {
    *r.pick(pool)
}

fn gen_dist(r: &mut SplitMix64) -> Dist {
    let tiny = f64::MIN_POSITIVE;
    let sub = f64::MIN_POSITIVE / 1024.0;
    let pos = [sub, tiny, 1e-300, 1e-9, 0.5, 1.0, 2.0, 10.0, 1e9, 1e300, f64::MAX, f64::INFINITY];
    let any = [0.0, -0.0, 1.0, -1.0, 1e300, -1e300, f64::MAX, -f64::MAX, sub, f64::NAN, f64::INFINITY, f64::NEG_INFINITY];
    let fin = [0.0, -0.0, sub, 1.0, -1.0, 1e-300, 1e300, -1e300, f64::MAX, -f64::MAX];
    let probs = [0.0, 1e-9, 1.0000000000000002e-9, 0.1, 0.5, 2.0 / 3.0, 0.9999999999999999, 1.0];
    // the property quantifies over what validation ACCEPTS: a third of the candidates take their "positive"
    // parameters and probabilities from pools that also hold the values a sound validator refuses (zero, negative
    // zero, negatives, NaN, infinities, one ulp outside a bound); on the unchanged code they are filtered out below
    let posx = [0.0, -0.0, -1.0, -f64::MIN_POSITIVE, f64::NAN, f64::NEG_INFINITY, f64::INFINITY, sub, 1.0, 1e300];
    let probsx = [-0.0, -1e-300, 9.999999999999999e-10, 1.0000000000000002, 2.0, f64::NAN, f64::INFINITY, 0.5];
    let lax = r.chance(1, 3);
    let pos: &[f64] = if lax { &posx } else { &pos };
    let probs: &[f64] = if lax { &probsx } else { &probs };
    loop {
        let dt = match r.below(11) {
            0 => {
                let a = corner(r, &fin);
                let b = if r.chance(1, 4) { a } else { corner(r, &fin) };
                DistType::Uniform { low: a.min(b), high: a.max(b) }
            }
            1 => DistType::Normal { mean: corner(r, &any), stdev: corner(r, &fin) },
            2 => DistType::SkewNormal { location: corner(r, &any), scale: corner(r, pos), shape: corner(r, &fin) },
            3 => DistType::LogNormal { mu: corner(r, &any), sigma: corner(r, &fin) },
            4 => DistType::Binomial { trials: if lax { *r.pick(&[1_000_000_001, u64::MAX, 1 << 32, 5]) } else { *r.pick(&[0, 1, 2, 15, 20, 100, 1000, 1_000_000, 1_000_000_000]) }, probability: corner(r, probs) },
            5 => DistType::Geometric { probability: corner(r, probs) },
            6 => DistType::Pareto { scale: corner(r, pos), shape: corner(r, pos) },
            7 => DistType::Poisson { lambda: if lax { corner(r, &[0.0, -0.0, -1.0, f64::NAN, f64::INFINITY, 1.0000000000000001e42, 1e43, 1.0]) } else { corner(r, &[sub, 1e-300, 0.5, 1.0, 11.9, 12.0, 12.1, 1e3, 1e6, 1e15, 1e42]) } },
            8 => DistType::Weibull { scale: corner(r, pos), shape: corner(r, pos) },
            9 => DistType::Gamma { scale: corner(r, pos), shape: corner(r, pos) },
            _ => DistType::Beta { alpha: corner(r, pos), beta: corner(r, pos) },
        };
        let start = if r.chance(1, 2) { 0.0 } else { corner(r, &any) };
        let max = if r.chance(1, 2) { 0.0 } else { corner(r, &any) };
        let d = Dist::new(dt, start, max);
        if d.validate().is_ok() {
            return d;
        }
    }
}

/// the recorded known-finding class: Binomial on the BINV path
fn binv_class(d: &Dist) -> bool {
    if let DistType::Binomial { trials, probability } = d.dist {
        let p = if probability <= 0.5 { probability } else { 1.0 - probability };
        return (trials as f64) * p < 10.0 && trials <= i32::MAX as u64 && probability != 0.0 && probability != 1.0;
    }
    false
}

pub fn run(seed: u64, n: usize, out: &str, only: Option<usize>) {
    std::fs::create_dir_all(out).unwrap();
    let mut cases = std::io::BufWriter::new(std::fs::File::create(format!("{}/cases.txt", out)).unwrap());
    let mut implo = std::io::BufWriter::new(std::fs::File::create(format!("{}/impl.out", out)).unwrap());
    let mut meta = std::io::BufWriter::new(std::fs::File::create(format!("{}/meta.txt", out)).unwrap());
    let exe = std::env::current_exe().unwrap();
    let mut master = SplitMix64::new(seed ^ 0xc13);
    let (mut viol, mut known, mut hangs, mut samples_total) = (0usize, 0usize, 0usize, 0usize);
    let mut fam = [0usize; 11];
    let mut distinct = std::collections::HashSet::new();
    let mut known_printed = false;
    let mut known2_printed = false;
    let mut nsample = 0;
    for i in 0..n {
        let mut r = master.fork();
        if let Some(o) = only {
            if o != i {
                continue;
            }
        }
        // the first case is the recorded witness of the known finding
        let d = if i == 0 {
            Dist::new(DistType::Binomial { trials: 15, probability: 0.5 }, 0.0, 0.0)
        } else if i == 1 {
            Dist::new(DistType::Binomial { trials: 20, probability: 0.5 }, 0.0, 0.0)
        } else {
            gen_dist(&mut r)
        };
        let script: Vec<u64> = if i == 0 {
            vec![u64::MAX; 8]
        } else if i == 1 {
            vec![u64::MAX, 1, 1 << 32, 1 << 32, 1 << 63, 0]
        } else {
            match r.below(6) {
                0 => vec![0; r.range(1, 12) as usize],
                1 => vec![u64::MAX; r.range(1, 12) as usize],
                2 => (0..r.range(2, 12)).map(|k| if k % 2 == 0 { 0 } else { u64::MAX }).collect(),
                3 => (0..r.range(1, 6)).map(|_| *r.pick(&[0, 1, u64::MAX, u64::MAX - 1, 1 << 63, (1 << 63) - 1, 1 << 32, (1 << 11) - 1])).collect(),
                _ => vec![],
            }
        };
        let count = 12usize;
        let mut dt: Toks = vec![];
        enc_dist(&d, &mut dt);
        fam[dt[0] as usize] += 1;
        let ds = dt.iter().map(|x| format!("{:x}", x)).collect::<Vec<_>>().join(",");
        let ss = script.iter().map(|x| format!("{:x}", x)).collect::<Vec<_>>().join(",");
        let wseed = r.next().to_string();
        let mut child = Command::new(&exe)
            .args(["c13worker", &ds, &ss, &wseed, &count.to_string()])
            .env("VHARNESS_PANIC", "1")
            .stdout(Stdio::piped())
            .stderr(Stdio::piped())
            .spawn()
            .unwrap();
        let wait = |child: &mut std::process::Child, limit: Duration| {
            let t0 = Instant::now();
            while t0.elapsed() < limit {
                if let Some(s) = child.try_wait().unwrap() {
                    return Some(s);
                }
                std::thread::sleep(Duration::from_micros(300));
            }
            None
        };
        let mut status = wait(&mut child, Duration::from_millis(2500));
        if status.is_none() && !binv_class(&d) {
            // outside the known class a timeout is only believed when it repeats with a generous
            // limit (a loaded machine must not produce a finding)
            let _ = child.kill();
            let _ = child.wait();
            child = Command::new(&exe)
                .args(["c13worker", &ds, &ss, &wseed, &count.to_string()])
                .env("VHARNESS_PANIC", "1")
                .stdout(Stdio::piped())
                .stderr(Stdio::piped())
                .spawn()
                .unwrap();
            status = wait(&mut child, Duration::from_secs(30));
        }
        let desc = format!("dist={:?} rng_prefix={:x?}", d, script);
        let mut outs = String::new();
        match status {
            None => {
                let _ = child.kill();
                let _ = child.wait();
                hangs += 1;
                if binv_class(&d) {
                    known += 1;
                    if !known_printed {
                        known_printed = true;
                        writeln!(meta, "known F11 Binomial sampling does not return (rand_distr 0.4.3 BINV inversion loop, n*min(p,1-p) < 10, first uniform draw within rounding error of 1): {}", desc).unwrap();
                    }
                } else {
                    viol += 1;
                    writeln!(meta, "violation case={} sampling did not return (2.5 s, then 30 s on a second attempt): {}", i, desc).unwrap();
                }
            }
            Some(s) => {
                child.stdout.take().unwrap().read_to_string(&mut outs).unwrap();
                if !s.success() {
                    let mut errs = String::new();
                    child.stderr.take().unwrap().read_to_string(&mut errs).unwrap();
                    let msg = errs.lines().filter(|l| !l.trim().is_empty()).collect::<Vec<_>>().join(" | ");
                    let btpe = matches!(d.dist, DistType::Binomial { .. }) && !binv_class(&d)
                        && msg.contains("binomial.rs") && msg.contains("x < (core::i64::MAX as f64)");
                    if btpe {
                        known += 1;
                        if !known2_printed {
                            known2_printed = true;
                            writeln!(meta, "known F12 Binomial sampling panics (rand_distr 0.4.3 BTPE path, n*min(p,1-p) >= 10: `assertion failed: x < i64::MAX as f64` in f64_to_i64 under an extreme RNG prefix): {}", desc).unwrap();
                        }
                    } else {
                        viol += 1;
                        writeln!(meta, "violation case={} sampling panicked ({}): {}", i, msg, desc).unwrap();
                    }
                }
            }
        }
        // whatever was sampled goes through the model's clamp
        let mut raws: Vec<u64> = vec![];
        let mut line: Toks = vec![1];
        let mut bad: Option<String> = None;
        for l in outs.lines() {
            let t: Vec<u64> = l.split(' ').map(|x| u64::from_str_radix(x, 16).unwrap()).collect();
            raws.push(t[0]);
            line.extend_from_slice(&t[1..4]);
            let v = f64::from_bits(t[4]);
            if v.is_nan() || v < 0.0 || (d.max > 0.0 && v > d.max) {
                bad = Some(format!("sample {} is out of range (max {})", v, d.max));
            }
        }
        samples_total += raws.len();
        if let Some(b) = bad {
            viol += 1;
            writeln!(meta, "violation case={} {}: {}", i, b, desc).unwrap();
        }
        let mut toks: Toks = vec![3];
        toks.extend_from_slice(&dt);
        toks.push(raws.len() as u64);
        toks.extend_from_slice(&raws);
        writeln!(cases, "{}", hex_line(None, &toks)).unwrap();
        writeln!(implo, "{}", hex_line(Some(i), &line)).unwrap();
        if !raws.is_empty() {
            distinct.insert(toks);
        }
        if nsample < 3 && !script.is_empty() {
            nsample += 1;
            writeln!(meta, "sample case={} {} -> {} samples", i, desc, raws.len()).unwrap();
        }
        if only.is_some() {
            writeln!(meta, "replay case={} {} output={:?}", i, desc, outs).unwrap();
        }
    }
    writeln!(meta, "summary cases={} nontrivial={} violations={} known={} hangs={} samples={} families={:?}", n, distinct.len(), viol, known, hangs, samples_total, fam).unwrap();
}
