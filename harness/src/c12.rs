//! C12: validation soundness. Adversarial machines (NaN payloads, infinities,
//! -0.0, subnormals, values one ulp beyond each bound, out-of-range and
//! duplicate targets, empty vectors, empty state lists) are pushed through
//! Machine::validate, Framework::new, Machine::from_str and Machine::new; the
//! model's validate must agree, and an independent well-formedness predicate
//! must hold for everything accepted.
use crate::enc::*;
use crate::genm::*;
use crate::rng::{ScriptRng, SplitMix64};
use crate::vclock::VInstant;
use maybenot::action::Action;
use maybenot::constants::{STATE_END, STATE_SIGNAL};
use maybenot::counter::Counter;
use maybenot::dist::{Dist, DistType};
use maybenot::state::Trans;
use maybenot::{Framework, Machine};
use serde::{Deserialize, Serialize};
use std::io::Write;
use std::str::FromStr;

/// mirrors of the two types with private fields (same serde shape)
#[derive(Serialize, Deserialize, Clone, Debug)]
pub struct MState {
    pub action: Option<Action>,
    pub counter: (Option<Counter>, Option<Counter>),
    pub transitions: [Option<Vec<Trans>>; 13],
}
#[derive(Serialize, Deserialize, Clone, Debug)]
pub struct MMachine {
    pub allowed_padding_packets: u64,
    pub max_padding_frac: f64,
    pub allowed_blocked_microsec: u64,
    pub max_blocking_frac: f64,
    pub states: Vec<MState>,
}

pub fn to_mirror(m: &Machine) -> MMachine {
    bincode::deserialize(&bincode::serialize(m).unwrap()).unwrap()
}
pub fn from_mirror(m: &MMachine) -> Machine {
    bincode::deserialize(&bincode::serialize(m).unwrap()).unwrap()
}

pub fn enc_mirror(m: &MMachine, o: &mut Toks) {
    o.push(m.allowed_padding_packets);
    o.push(m.max_padding_frac.to_bits());
    o.push(m.allowed_blocked_microsec);
    o.push(m.max_blocking_frac.to_bits());
    o.push(m.states.len() as u64);
    for s in &m.states {
        enc_action(&s.action, o);
        enc_counter(&s.counter.0, o);
        enc_counter(&s.counter.1, o);
        for v in s.transitions.iter() {
            match v {
                None => o.push(0),
                Some(v) => {
                    o.push(1);
                    o.push(v.len() as u64);
                    for t in v {
                        o.push(t.0 as u64);
                        o.push(t.1.to_bits() as u64);
                    }
                }
            }
        }
    }
}

fn special_f64(r: &mut SplitMix64, around: f64) -> f64 {
    match r.below(14) {
        0 => f64::NAN,
        1 => f64::from_bits(0x7ff0_0000_0000_0001), // signalling NaN payload
        2 => f64::from_bits(0xfff8_0000_dead_beef),
        3 => f64::INFINITY,
        4 => f64::NEG_INFINITY,
        5 => -0.0,
        6 => f64::MIN_POSITIVE / 4.0, // subnormal
        7 => f64::from_bits(around.to_bits().wrapping_add(1)),
        8 => f64::from_bits(around.to_bits().wrapping_sub(1)),
        9 => -around,
        10 => 1e-9,
        11 => f64::from_bits(1e-9f64.to_bits() - 1),
        12 => 1e42,
        _ => f64::from_bits(1e42f64.to_bits() + 1),
    }
}

fn special_f32(r: &mut SplitMix64, around: f32) -> f32 {
    match r.below(10) {
        0 => f32::NAN,
        1 => f32::from_bits(0x7f80_0001),
        2 => f32::INFINITY,
        3 => f32::NEG_INFINITY,
        4 => -0.0,
        5 => 0.0,
        6 => f32::MIN_POSITIVE / 4.0,
        7 => f32::from_bits(around.to_bits().wrapping_add(1)),
        8 => f32::from_bits(1.0f32.to_bits() + 1),
        _ => -around,
    }
}

fn mutate_dist(r: &mut SplitMix64, d: &mut Dist) {
    let pick = r.below(4);
    if pick == 0 {
        d.start = special_f64(r, d.start);
        return;
    }
    if pick == 1 {
        d.max = special_f64(r, d.max);
        return;
    }
    let second = r.chance(1, 2);
    match &mut d.dist {
        DistType::Uniform { low, high } => {
            if second {
                *high = special_f64(r, *high)
            } else {
                *low = { let arr = [f64::MAX, -f64::MAX, special_f64(r, *low)]; arr[r.below(arr.len() as u64) as usize] }
            }
        }
        DistType::Normal { mean, stdev } => {
            if second {
                *stdev = special_f64(r, *stdev)
            } else {
                *mean = special_f64(r, *mean)
            }
        }
        DistType::SkewNormal { location, scale, shape } => match r.below(3) {
            0 => *location = special_f64(r, *location),
            1 => *scale = { let arr = [0.0, special_f64(r, *scale)]; arr[r.below(arr.len() as u64) as usize] },
            _ => *shape = special_f64(r, *shape),
        },
        DistType::LogNormal { mu, sigma } => {
            if second {
                *sigma = special_f64(r, *sigma)
            } else {
                *mu = special_f64(r, *mu)
            }
        }
        DistType::Binomial { trials, probability } => {
            if second {
                *probability = { let arr = [special_f64(r, 1.0), special_f64(r, 0.0), special_f64(r, 1e-9)]; arr[r.below(arr.len() as u64) as usize] }
            } else {
                *trials = *r.pick(&[1_000_000_000, 1_000_000_001, u64::MAX, 0])
            }
        }
        DistType::Geometric { probability } => {
            *probability = { let arr = [special_f64(r, 1.0), special_f64(r, 0.0), special_f64(r, 1e-9)]; arr[r.below(arr.len() as u64) as usize] }
        }
        DistType::Pareto { scale, shape }
        | DistType::Weibull { scale, shape }
        | DistType::Gamma { scale, shape } => {
            if second {
                *shape = { let arr = [0.0, special_f64(r, *shape)]; arr[r.below(arr.len() as u64) as usize] }
            } else {
                *scale = { let arr = [0.0, special_f64(r, *scale)]; arr[r.below(arr.len() as u64) as usize] }
            }
        }
        DistType::Poisson { lambda } => *lambda = { let arr = [0.0, special_f64(r, 1e42), special_f64(r, *lambda)]; arr[r.below(arr.len() as u64) as usize] },
        DistType::Beta { alpha, beta } => {
            if second {
                *beta = { let arr = [0.0, special_f64(r, *beta)]; arr[r.below(arr.len() as u64) as usize] }
            } else {
                *alpha = { let arr = [0.0, special_f64(r, *alpha)]; arr[r.below(arr.len() as u64) as usize] }
            }
        }
    }
}

fn dists_of_state(s: &mut MState) -> Vec<&mut Dist> {
    let mut v: Vec<&mut Dist> = vec![];
    match &mut s.action {
        Some(Action::SendPadding { timeout, limit, .. }) => {
            v.push(timeout);
            if let Some(l) = limit {
                v.push(l)
            }
        }
        Some(Action::BlockOutgoing { timeout, duration, limit, .. }) => {
            v.push(timeout);
            v.push(duration);
            if let Some(l) = limit {
                v.push(l)
            }
        }
        Some(Action::UpdateTimer { duration, limit, .. }) => {
            v.push(duration);
            if let Some(l) = limit {
                v.push(l)
            }
        }
        _ => {}
    }
    if let Some(c) = &mut s.counter.0 {
        if let Some(d) = &mut c.dist {
            v.push(d)
        }
    }
    if let Some(c) = &mut s.counter.1 {
        if let Some(d) = &mut c.dist {
            v.push(d)
        }
    }
    v
}

pub fn mutate(r: &mut SplitMix64, m: &mut MMachine) {
    let n = m.states.len();
    match r.below(12) {
        0 => {
            let a = *r.pick(&[0.0, 1.0]);
            m.max_padding_frac = special_f64(r, a)
        }
        1 => {
            let a = *r.pick(&[0.0, 1.0]);
            m.max_blocking_frac = special_f64(r, a)
        }
        2 => m.states.clear(),
        3 | 4 | 5 if n > 0 => {
            // transition probability / target
            let si = r.below(n as u64) as usize;
            let ei = r.below(13) as usize;
            let s = &mut m.states[si];
            match r.below(5) {
                0 => s.transitions[ei] = Some(vec![]),
                1 => {
                    let v = s.transitions[ei].get_or_insert_with(|| vec![Trans(0, 1.0)]);
                    if v.is_empty() {
                        v.push(Trans(0, 1.0));
                    }
                    let k = r.below(v.len() as u64) as usize;
                    v[k].0 = *r.pick(&[n, n + 1, STATE_END - 2, usize::MAX, STATE_SIGNAL, STATE_END]);
                }
                2 => {
                    let v = s.transitions[ei].get_or_insert_with(|| vec![Trans(0, 0.5)]);
                    if v.is_empty() {
                        v.push(Trans(0, 0.5));
                    }
                    let t = v[0].0;
                    v.push(Trans(t, 0.25)); // duplicate target
                }
                3 => {
                    let v = s.transitions[ei].get_or_insert_with(|| vec![Trans(0, 1.0)]);
                    if v.is_empty() {
                        v.push(Trans(0, 1.0));
                    }
                    let k = r.below(v.len() as u64) as usize;
                    v[k].1 = special_f32(r, v[k].1);
                }
                _ => {
                    // sum slightly above / exactly 1
                    s.transitions[ei] = Some(vec![Trans(0, 0.5), Trans(STATE_END, *r.pick(&[0.5, f32::from_bits(0.5f32.to_bits() + 1), 0.50000006]))]);
                }
            }
        }
        _ if n > 0 => {
            let si = r.below(n as u64) as usize;
            let mut ds = dists_of_state(&mut m.states[si]);
            if !ds.is_empty() {
                let k = r.below(ds.len() as u64) as usize;
                mutate_dist(r, ds[k]);
            } else {
                m.max_padding_frac = special_f64(r, 1.0);
            }
        }
        _ => {}
    }
}

// ---- the independent well-formedness predicate -------------------------------------------
fn real(x: f64) -> bool {
    x.is_finite()
}
fn pos_param(x: f64) -> bool {
    !x.is_nan() && x > 0.0
}
fn wf_dist(d: &Dist) -> bool {
    match d.dist {
        DistType::Uniform { low, high } => real(low) && real(high) && low <= high && (high - low).is_finite(),
        DistType::Normal { stdev, .. } => real(stdev),
        DistType::SkewNormal { scale, shape, .. } => real(scale) && scale > 0.0 && real(shape),
        DistType::LogNormal { sigma, .. } => real(sigma),
        DistType::Binomial { trials, probability } => {
            trials <= 1_000_000_000 && real(probability) && (0.0..=1.0).contains(&probability) && (probability == 0.0 || probability >= 1e-9)
        }
        DistType::Geometric { probability } => real(probability) && (0.0..=1.0).contains(&probability) && (probability == 0.0 || probability >= 1e-9),
        DistType::Pareto { scale, shape } | DistType::Weibull { scale, shape } | DistType::Gamma { scale, shape } => pos_param(scale) && pos_param(shape),
        DistType::Poisson { lambda } => real(lambda) && lambda > 0.0 && lambda <= 1e42,
        DistType::Beta { alpha, beta } => pos_param(alpha) && pos_param(beta),
    }
}
pub fn wf_machine(m: &MMachine) -> Option<String> {
    let unit = |x: f64| x.is_finite() && (0.0..=1.0).contains(&x);
    if !unit(m.max_padding_frac) || !unit(m.max_blocking_frac) {
        return Some("a fraction is not a real number in [0,1]".into());
    }
    let n = m.states.len();
    if n == 0 {
        return Some("no states".into());
    }
    for (si, s) in m.states.iter().enumerate() {
        for (ei, v) in s.transitions.iter().enumerate() {
            if let Some(v) = v {
                let mut seen = vec![];
                let mut sum = 0.0f32;
                for t in v {
                    if !(t.0 < n || t.0 == STATE_END || t.0 == STATE_SIGNAL) {
                        return Some(format!("state {} event {}: target {} out of range", si, ei, t.0));
                    }
                    if seen.contains(&t.0) {
                        return Some(format!("state {} event {}: duplicate target {}", si, ei, t.0));
                    }
                    seen.push(t.0);
                    if !(t.1.is_finite() && t.1 > 0.0 && t.1 <= 1.0) {
                        return Some(format!("state {} event {}: probability {} not a real in (0,1]", si, ei, t.1));
                    }
                    sum += t.1;
                }
                if !(sum.is_finite() && sum > 0.0 && sum <= 1.0) {
                    return Some(format!("state {} event {}: probability sum {} not in (0,1]", si, ei, sum));
                }
            }
        }
        let mut sc = s.clone();
        for d in dists_of_state(&mut sc) {
            if !wf_dist(d) {
                return Some(format!("state {}: invalid distribution {:?}", si, d));
            }
        }
    }
    None
}

pub fn run(seed: u64, n: usize, out: &str, only: Option<usize>) {
    std::fs::create_dir_all(out).unwrap();
    let mut cases = std::io::BufWriter::new(std::fs::File::create(format!("{}/cases.txt", out)).unwrap());
    let mut implo = std::io::BufWriter::new(std::fs::File::create(format!("{}/impl.out", out)).unwrap());
    let mut meta = std::io::BufWriter::new(std::fs::File::create(format!("{}/meta.txt", out)).unwrap());
    let mut master = SplitMix64::new(seed ^ 0xc12c12);
    let (mut accepted, mut rejected, mut viol) = (0usize, 0usize, 0usize);
    let mut distinct = std::collections::HashSet::new();
    let mut samples = 0;
    for i in 0..n {
        let mut r = master.fork();
        if let Some(o) = only {
            if o != i {
                continue;
            }
        }
        let mut mp = MProfile::mixed();
        mp.max_states = 3;
        let base = gen_machine(&mut r, &mp);
        let mut mm = to_mirror(&base);
        let nmut = r.below(3); // 0 mutations: a valid machine
        for _ in 0..nmut {
            mutate(&mut r, &mut mm);
        }
        let around = *r.pick(&[0.0, 1.0]);
        let fpad = if r.chance(1, 3) { special_f64(&mut r, around) } else { *r.pick(&FRACS) };
        let around = *r.pick(&[0.0, 1.0]);
        let fblk = if r.chance(1, 3) { special_f64(&mut r, around) } else { *r.pick(&FRACS) };
        let m = from_mirror(&mm);
        let v = m.validate().is_ok();
        let fw = Framework::new(std::slice::from_ref(&m), fpad, fblk, VInstant(0), ScriptRng::new(vec![], 1)).is_ok();
        let s = m.serialize();
        let fs = Machine::from_str(&s).is_ok();
        let nw = Machine::new(m.allowed_padding_packets, m.max_padding_frac, m.allowed_blocked_microsec, m.max_blocking_frac, m.states.clone()).is_ok();
        let mut toks: Toks = vec![2, fpad.to_bits(), fblk.to_bits()];
        enc_mirror(&mm, &mut toks);
        writeln!(cases, "{}", hex_line(None, &toks)).unwrap();
        writeln!(implo, "{}", hex_line(Some(i), &[v as u64, fw as u64, fs as u64, nw as u64])).unwrap();
        if v {
            accepted += 1
        } else {
            rejected += 1
        }
        if nmut > 0 {
            distinct.insert(toks.clone());
        }
        let desc = || format!("machine={:?} max_padding_frac={:?} max_blocking_frac={:?} validate={} framework_new={} from_str={} new={}", s, fpad, fblk, v, fw, fs, nw);
        if samples < 3 && nmut > 0 && !v {
            samples += 1;
            writeln!(meta, "sample case={} rejected: {}", i, desc()).unwrap();
        }
        if only.is_some() {
            writeln!(meta, "replay case={} {} mirror={:?}", i, desc(), mm).unwrap();
        }
        let unit = |x: f64| x.is_finite() && (0.0..=1.0).contains(&x);
        if v {
            if let Some(why) = wf_machine(&mm) {
                viol += 1;
                writeln!(meta, "violation case={} validation accepted a machine that is not well-formed: {}", i, why).unwrap();
                continue;
            }
        }
        if fs != v || nw != v {
            viol += 1;
            writeln!(meta, "violation case={} the paths disagree: validate={} from_str={} new={}", i, v, fs, nw).unwrap();
        } else if fw != (v && unit(fpad) && unit(fblk)) {
            viol += 1;
            writeln!(meta, "violation case={} Framework::new={} but validate={} and fractions ({:?},{:?})", i, fw, v, fpad, fblk).unwrap();
        }
    }
    writeln!(meta, "summary cases={} nontrivial={} violations={} accepted={} rejected={}", n, distinct.len(), viol, accepted, rejected).unwrap();
}
