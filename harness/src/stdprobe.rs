//! C01 with the crate's default clock (std::time::Instant): generated
//! blocking histories with instants up to 2^62 s apart. The framework's
//! `Duration +=` can overflow there (known finding F6); any other panic is a
//! violation.
use crate::fw::panic_msg;
use crate::genm::*;
use crate::rng::{ScriptRng, SplitMix64};
use maybenot::{Framework, MachineId, TriggerEvent};
use std::io::Write;
use std::panic::{catch_unwind, AssertUnwindSafe};
use std::time::{Duration, Instant};

const OFFSETS: [u64; 9] = [
    0,
    1,
    1_000_000,
    86_400,
    31_536_000,
    1 << 40,
    1 << 61,
    1 << 62,
    (1 << 62) + 12345,
];

pub fn run(seed: u64, n: usize, out: &str) {
    std::fs::create_dir_all(out).unwrap();
    let mut meta = std::io::BufWriter::new(std::fs::File::create(format!("{}/meta.txt", out)).unwrap());
    let mut master = SplitMix64::new(seed ^ 0x5d5d);
    let base = Instant::now();
    let mut known = 0;
    let mut viol = 0;
    let mut nontrivial = 0;
    let mut known_printed = false;
    for i in 0..n {
        let mut r = master.fork();
        let mut mp = MProfile::mixed();
        mp.act_block = 6;
        mp.families = false;
        let nm = r.range(1, 3) as usize;
        let machines: Vec<_> = (0..nm).map(|_| gen_machine(&mut r, &mp)).collect();
        // the first case is the recorded F6 witness shape: four begin/end pairs 2^62 s apart
        let witness = i == 0;
        let ncalls = if witness { 8 } else { r.range(2, 12) };
        let mut plan: Vec<(u64, bool, TriggerEvent)> = vec![]; // (offset secs, as micros?, event)
        for k in 0..ncalls {
            let (off, ev) = if witness {
                if k % 2 == 0 {
                    (0, TriggerEvent::BlockingBegin { machine: MachineId::from_raw(0) })
                } else {
                    (1 << 62, TriggerEvent::BlockingEnd)
                }
            } else {
                let ev = match r.below(6) {
                    0 | 1 => TriggerEvent::BlockingBegin { machine: MachineId::from_raw(gen_id(&mut r, nm, true)) },
                    2 | 3 => TriggerEvent::BlockingEnd,
                    4 => TriggerEvent::NormalSent,
                    _ => TriggerEvent::TunnelRecv,
                };
                (*r.pick(&OFFSETS), ev)
            };
            plan.push((off, false, ev));
        }
        let rng = ScriptRng::new(vec![], r.next());
        let mut fw = match Framework::new(&machines[..], *r.pick(&FRACS), *r.pick(&FRACS), base, rng) {
            Ok(f) => f,
            Err(_) => continue,
        };
        // exact recount of blocked time (nanoseconds, u128) the way the framework accumulates it
        let mut acc: u128 = 0;
        let mut active = false;
        let mut started = base;
        let max_ns: u128 = (u64::MAX as u128) * 1_000_000_000 + 999_999_999;
        let mut over = false;
        let mut panic: Option<String> = None;
        let mut acted = false;
        for (off, _, ev) in &plan {
            let t = match base.checked_add(Duration::from_secs(*off)) {
                Some(t) => t,
                None => continue,
            };
            let ongoing = if active { t.saturating_duration_since(started).as_nanos() } else { 0 };
            match ev {
                TriggerEvent::BlockingBegin { .. } => {
                    if !active {
                        active = true;
                        started = t;
                    }
                    // limits are evaluated with the ongoing block added
                    if acc + t.saturating_duration_since(started).as_nanos() > max_ns {
                        over = true;
                    }
                }
                TriggerEvent::BlockingEnd => {
                    if active {
                        acc += ongoing;
                        active = false;
                    }
                    if acc > max_ns {
                        over = true;
                    }
                }
                _ => {
                    if acc + ongoing > max_ns {
                        over = true;
                    }
                }
            }
            let res = catch_unwind(AssertUnwindSafe(|| fw.trigger_events(&[ev.clone()], t).count()));
            match res {
                Ok(k) => acted |= k > 0,
                Err(e) => {
                    panic = Some(panic_msg(e));
                    break;
                }
            }
        }
        if acted {
            nontrivial += 1;
        }
        if let Some(p) = panic {
            if p.contains("overflow when adding durations") && over {
                known += 1;
                if !known_printed {
                    known_printed = true;
                    writeln!(meta, "known F6 std::time clock: blocked time accumulated beyond Duration::MAX (2^64 s) panics with 'overflow when adding durations' ({} such case(s) in this run, first: case {})", 1, i).unwrap();
                }
            } else {
                viol += 1;
                writeln!(meta, "violation case={} std clock panic outside the known class: {}", i, p).unwrap();
            }
        }
    }
    writeln!(meta, "summary cases={} nontrivial={} violations={} known={}", n, nontrivial, viol, known).unwrap();
}
