//! C06: State::sample_state driven through ALL 2^23 values of the uniform
//! draw by a counting RNG; exact per-target counts are compared with the
//! model's closed-form integer thresholds.
use crate::enc::*;
use crate::rng::SplitMix64;
use enum_map::{enum_map, EnumMap};
use maybenot::constants::{STATE_END, STATE_SIGNAL};
use maybenot::event::Event;
use maybenot::state::{State, Trans};
use rand_core::{impls, Error, RngCore};
use std::io::Write;

struct WordRng(u32);
impl RngCore for WordRng {
    fn next_u32(&mut self) -> u32 {
        self.0
    }
    fn next_u64(&mut self) -> u64 {
        ((self.0 as u64) << 32) | self.0 as u64
    }
    fn fill_bytes(&mut self, dest: &mut [u8]) {
        impls::fill_bytes_via_next(self, dest)
    }
    fn try_fill_bytes(&mut self, dest: &mut [u8]) -> Result<(), Error> {
        self.fill_bytes(dest);
        Ok(())
    }
}

fn gen_vector(r: &mut SplitMix64, nstates: usize) -> Vec<Trans> {
    let mut targets: Vec<usize> = (0..nstates).collect();
    targets.push(STATE_END);
    targets.push(STATE_SIGNAL);
    for i in (1..targets.len()).rev() {
        let j = r.below(i as u64 + 1) as usize;
        targets.swap(i, j);
    }
    let n = (r.range(1, 8) as usize).min(targets.len());
    let mode = r.below(9);
    let mut probs: Vec<f32> = vec![];
    match mode {
        0 => probs.push(1.0),
        1 => {
            // equal shares summing (in f32) to about 1
            for _ in 0..n {
                probs.push(1.0 / n as f32);
            }
        }
        2 => {
            // decimal fractions that round: 0.1 + 0.2 + 0.7
            probs = vec![0.1, 0.2, 0.7];
        }
        3 => {
            // tiny total
            for _ in 0..n {
                probs.push(*r.pick(&[1e-7f32, 5.9604645e-8, 1.1920929e-7, 2e-20, f32::MIN_POSITIVE, 1e-10]));
            }
        }
        4 => {
            // values at the resolution limit of the draw and of f32
            for _ in 0..n {
                probs.push(*r.pick(&[1.1920929e-7f32, 1.1920930e-7, 2.3841858e-7, 0.5, 0.25, 0.24999999, 0.33333334, 0.3333333]));
            }
        }
        7 | 8 => {
            // a remainder 1 - sum that is small but not zero (a few draws up to 1%): the share on which
            // NO transition may be taken, next to every landmark a tolerance constant could sit at
            let d = *r.pick(&[5.9604645e-8f64, 1.1920929e-7, 1.7881393e-7, 9.536743e-7, 1e-6, 1e-5, 5e-5, 9.9e-5, 1e-4, 1.01e-4, 5e-4, 1e-3, 1e-2]);
            let total = 1.0 - d;
            let w: Vec<f64> = (0..n).map(|_| (r.below(100000) + 1) as f64).collect();
            let s: f64 = w.iter().sum();
            let mut acc = 0.0f64;
            for (k, x) in w.iter().enumerate() {
                if k + 1 == w.len() {
                    probs.push((total - acc) as f32);
                } else {
                    let p = (x / s * total) as f32;
                    acc += p as f64;
                    probs.push(p);
                }
            }
            probs.retain(|p| *p > 0.0);
        }
        _ => {
            let total = *r.pick(&[1.0f64, 1.0, 0.999, 0.5, 0.01]);
            let w: Vec<f64> = (0..n).map(|_| (r.below(100000) + 1) as f64).collect();
            let s: f64 = w.iter().sum();
            probs = w.iter().map(|x| (x / s * total) as f32).collect();
        }
    }
    probs.truncate(targets.len());
    // make the f32 sum valid (<= 1) by shaving the last element
    loop {
        let mut sum = 0.0f32;
        for p in &probs {
            sum += p;
        }
        if sum <= 1.0 || probs.is_empty() {
            break;
        }
        let l = probs.len() - 1;
        if probs[l] <= f32::MIN_POSITIVE {
            probs.pop();
        } else {
            probs[l] = f32::from_bits(probs[l].to_bits() - 1);
        }
    }
    targets.iter().zip(probs.iter()).map(|(t, p)| Trans(*t, *p)).collect()
}

pub fn run(seed: u64, n: usize, out: &str, only: Option<usize>) {
    std::fs::create_dir_all(out).unwrap();
    let mut cases = std::io::BufWriter::new(std::fs::File::create(format!("{}/cases.txt", out)).unwrap());
    let mut implo = std::io::BufWriter::new(std::fs::File::create(format!("{}/impl.out", out)).unwrap());
    let mut meta = std::io::BufWriter::new(std::fs::File::create(format!("{}/meta.txt", out)).unwrap());
    let mut master = SplitMix64::new(seed ^ 0xc06);
    let mut viol = 0usize;
    let mut distinct = std::collections::HashSet::new();
    let mut draws: u64 = 0;
    let mut nsample = 0;
    // rand's f32 draw is (word >> 9) / 2^23: checked on every run for all 2^23 k (with varied low bits)
    {
        use rand::Rng;
        for k in 0u32..(1 << 23) {
            let low = (k.wrapping_mul(2654435761)) & 0x1ff;
            let r: f32 = WordRng((k << 9) | low).gen_range(0.0..1.0);
            if r != k as f32 / 8388608.0 {
                viol += 1;
                writeln!(meta, "violation case=0 the uniform f32 draw for word {:#x} is {} and not k/2^23 = {}", (k << 9) | low, r, k as f32 / 8388608.0).unwrap();
                break;
            }
        }
    }
    for i in 0..n {
        let mut r = master.fork();
        if let Some(o) = only {
            if o != i {
                continue;
            }
        }
        let nstates = r.range(1, 4) as usize;
        let v = gen_vector(&mut r, nstates);
        if v.is_empty() {
            continue;
        }
        let mut t: EnumMap<Event, Vec<Trans>> = enum_map! { _ => vec![] };
        t[Event::NormalSent] = v.clone();
        let st = State::new(t);
        let valid = st.validate(nstates).is_ok();
        // exhaustive enumeration of the draw
        let mut counts = vec![0u64; v.len() + 1];
        if valid {
            let mut rng = WordRng(0);
            for k in 0u32..(1 << 23) {
                rng.0 = (k << 9) | (k & 0x1ff);
                let res = st.sample_state(Event::NormalSent, &mut rng);
                let idx = match res {
                    None => v.len(),
                    Some(t) => v.iter().position(|x| x.0 == t).unwrap(),
                };
                counts[idx] += 1;
            }
            draws += 1 << 23;
        }
        let mut toks: Toks = vec![4, nstates as u64, v.len() as u64];
        for tr in &v {
            toks.push(tr.0 as u64);
            toks.push(tr.1.to_bits() as u64);
        }
        writeln!(cases, "{}", hex_line(None, &toks)).unwrap();
        let mut line: Toks = vec![valid as u64];
        let mut cum = 0u64;
        for j in 0..v.len() {
            cum += counts[j];
            line.push(if valid { cum } else { 0 });
        }
        if !valid {
            // the model prints thresholds regardless of validity; only the verdict is compared
            line.truncate(1);
        }
        writeln!(implo, "{}", hex_line(Some(i), &line)).unwrap();
        let desc = format!("states={} vector={:?} valid={} counts={:?} none={}", nstates, v, valid, &counts[..v.len()], counts[v.len()]);
        if valid {
            distinct.insert(toks);
            // monitor: each target's share equals its probability up to the resolution of the draw
            for (j, tr) in v.iter().enumerate() {
                let expect = tr.1 as f64 * 8388608.0;
                if (counts[j] as f64 - expect).abs() >= 2.0 {
                    viol += 1;
                    writeln!(meta, "violation case={} target {} chosen on {} of 2^23 draws, declared probability {} = {} draws: {}", i, tr.0, counts[j], tr.1, expect, desc).unwrap();
                    break;
                }
            }
        }
        if nsample < 3 && valid && v.len() > 1 {
            nsample += 1;
            writeln!(meta, "sample case={} {}", i, desc).unwrap();
        }
        if only.is_some() {
            writeln!(meta, "replay case={} {}", i, desc).unwrap();
        }
    }
    writeln!(meta, "summary cases={} nontrivial={} violations={} draws={}", n, distinct.len(), viol, draws).unwrap();
}
