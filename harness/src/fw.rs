//! Framework cases: running the real maybenot::Framework on a generated case
//! with the verif recorder armed, and rendering the canonical output lines.
use crate::enc::*;
use crate::rng::ScriptRng;
use crate::vclock::{VDuration, VInstant};
use maybenot::verif::{self, Snapshot};
use maybenot::{Framework, Machine, TriggerAction, TriggerEvent};
use std::panic::{catch_unwind, AssertUnwindSafe};

#[derive(Clone, Debug)]
pub struct FwCase {
    pub machines: Vec<Machine>,
    pub fpad: f64,
    pub fblk: f64,
    pub t0: u64,
    pub calls: Vec<(u64, Vec<TriggerEvent>)>,
    pub script: Vec<u64>,
    pub seed: u64,
}

pub type Snap = Snapshot<VInstant, VDuration>;

#[derive(Clone, Debug)]
pub struct CallRec {
    pub actions: Vec<TriggerAction<VInstant>>,
    pub snap: Snap,
    pub log: Vec<(u64, u64, u64)>,
    pub steps: u64,
    pub pos: u64,
}

#[derive(Clone, Debug, Default)]
pub struct FwRun {
    pub lines: Vec<Toks>,
    pub tape: Vec<u64>,
    pub new_snap: Option<Snap>,
    pub calls: Vec<CallRec>,
    pub panic: Option<String>,
    pub new_err: Option<String>,
}

pub fn panic_kind(msg: &str) -> u64 {
    if msg.contains("index out of bounds") {
        1
    } else if msg.contains("overflow when adding durations") {
        2
    } else if msg.contains("unwrap") {
        3
    } else if msg.contains("with overflow") {
        4
    } else if msg.contains("step budget") {
        5
    } else {
        9
    }
}

pub fn panic_msg(e: Box<dyn std::any::Any + Send>) -> String {
    if let Some(s) = e.downcast_ref::<&str>() {
        s.to_string()
    } else if let Some(s) = e.downcast_ref::<String>() {
        s.clone()
    } else {
        "unknown panic".to_string()
    }
}

fn tape_tokens(t: &[(u64, u64)], out: &mut Vec<u64>) {
    for (tag, bits) in t {
        if *tag == verif::TAPE_U {
            let r = f32::from_bits(*bits as u32);
            let k = (r * 8388608.0) as u64;
            if (k as f32) / 8388608.0 == r && k < (1 << 23) {
                out.push(k);
            } else {
                // not of the form k / 2^23: make the disagreement visible
                out.push(1 << 62);
            }
        } else {
            out.push(*bits);
        }
    }
}

pub const STEP_BUDGET: u64 = 4000;

pub fn run_case(c: &FwCase) -> FwRun {
    let mut run = FwRun::default();
    let rng = ScriptRng::new(c.script.clone(), c.seed);
    verif::arm(STEP_BUDGET);
    let fw = catch_unwind(AssertUnwindSafe(|| {
        Framework::new(&c.machines[..], c.fpad, c.fblk, VInstant(c.t0), rng)
    }));
    let mut fw = match fw {
        Err(e) => {
            let m = panic_msg(e);
            run.lines.push(vec![1, panic_kind(&m)]);
            run.panic = Some(m);
            let (t, _, _) = verif::take();
            tape_tokens(&t, &mut run.tape);
            verif::disarm();
            return run;
        }
        Ok(Err(e)) => {
            run.lines.push(vec![3]);
            run.new_err = Some(e.to_string());
            verif::disarm();
            return run;
        }
        Ok(Ok(f)) => f,
    };
    let (t, _, _) = verif::take();
    tape_tokens(&t, &mut run.tape);
    let snap = fw.verif_snapshot();
    let mut line = vec![0];
    out_state(&snap, 0, run.tape.len() as u64, &mut line);
    run.lines.push(line);
    run.new_snap = Some(snap);

    for (time, evs) in &c.calls {
        let r = catch_unwind(AssertUnwindSafe(|| {
            let acts: Vec<TriggerAction<VInstant>> =
                fw.trigger_events(evs, VInstant(*time)).cloned().collect();
            acts
        }));
        let (t, log, steps) = verif::take();
        tape_tokens(&t, &mut run.tape);
        match r {
            Err(e) => {
                let m = panic_msg(e);
                run.lines.push(vec![1, panic_kind(&m)]);
                run.panic = Some(m);
                break;
            }
            Ok(acts) => {
                let snap = fw.verif_snapshot();
                let mut line = vec![0];
                out_state(&snap, steps, run.tape.len() as u64, &mut line);
                line.push(acts.len() as u64);
                for a in &acts {
                    out_action(a, &mut line);
                }
                line.push(log.len() as u64);
                for (a, b, c) in &log {
                    line.extend_from_slice(&[*a, *b, *c]);
                }
                run.lines.push(line);
                run.calls.push(CallRec {
                    actions: acts,
                    snap,
                    log,
                    steps,
                    pos: run.tape.len() as u64,
                });
            }
        }
    }
    verif::disarm();
    run
}

/// the wire encoding of a case, with the tape observed on the implementation
pub fn enc_case(c: &FwCase, tape: &[u64]) -> Toks {
    let mut o: Toks = vec![1];
    o.push(c.fpad.to_bits());
    o.push(c.fblk.to_bits());
    o.push(c.machines.len() as u64);
    for m in &c.machines {
        enc_machine(m, &mut o);
    }
    o.push(c.t0);
    o.push(c.calls.len() as u64);
    for (t, evs) in &c.calls {
        o.push(*t);
        o.push(evs.len() as u64);
        for e in evs {
            enc_event(e, &mut o);
        }
    }
    o.push(tape.len() as u64);
    o.extend_from_slice(tape);
    o
}
