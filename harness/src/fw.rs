//! Framework cases: running the real maybenot::Framework on a generated case
//! with the verif recorder armed, and rendering the canonical output lines.
use crate::enc::*;
use crate::rng::ScriptRng;
use crate::vclock::{VDuration, VInstant};
use maybenot::verif::{self, Snapshot};
use maybenot::{Framework, Machine, TriggerAction, TriggerEvent};
use std::panic::{catch_unwind, AssertUnwindSafe};

#[derive(Clone, Debug)]
pub struct FwCase {
    pub machines: Vec<Machine>,
    pub fpad: f64,
    pub fblk: f64,
    pub t0: u64,
    pub calls: Vec<(u64, Vec<TriggerEvent>)>,
    pub script: Vec<u64>,
    pub seed: u64,
    /// run on the crate's default clock (std::time::Instant; the ticks of this case are nanoseconds
    /// after a base instant) instead of the harness's microsecond virtual clock
    pub std: bool,
}

pub type Snap = Snapshot<VInstant, VDuration>;

#[derive(Clone, Debug)]
pub struct CallRec {
    pub actions: Vec<TriggerAction<VInstant>>,
    pub snap: Snap,
    pub log: Vec<(u64, u64, u64)>,
    pub steps: u64,
    pub pos: u64,
}

#[derive(Clone, Debug, Default)]
pub struct FwRun {
    pub lines: Vec<Toks>,
    pub tape: Vec<u64>,
    pub new_snap: Option<Snap>,
    pub calls: Vec<CallRec>,
    pub panic: Option<String>,
    pub new_err: Option<String>,
}

pub fn panic_kind(msg: &str) -> u64 {
    if msg.contains("index out of bounds") {
        1
    } else if msg.contains("overflow when adding durations") {
        2
    } else if msg.contains("unwrap") {
        3
    } else if msg.contains("with overflow") {
        4
    } else if msg.contains("step budget") {
        5
    } else {
        9
    }
}

pub fn panic_msg(e: Box<dyn std::any::Any + Send>) -> String {
    if let Some(s) = e.downcast_ref::<&str>() {
        s.to_string()
    } else if let Some(s) = e.downcast_ref::<String>() {
        s.clone()
    } else {
        "unknown panic".to_string()
    }
}

fn tape_tokens(t: &[(u64, u64)], out: &mut Vec<u64>) {
    for (tag, bits) in t {
        if *tag == verif::TAPE_U {
            let r = f32::from_bits(*bits as u32);
            let k = (r * 8388608.0) as u64;
            if (k as f32) / 8388608.0 == r && k < (1 << 23) {
                out.push(k);
            } else {
                // not of the form k / 2^23: make the disagreement visible
                out.push(1 << 62);
            }
        } else {
            out.push(*bits);
        }
    }
}

pub const STEP_BUDGET: u64 = 4000;

/// How a case's integer ticks become instants of a clock, and how that clock's instants and durations
/// are rendered back as ticks (the canonical output is clock-neutral: all monitors and printers work on
/// the VInstant/VDuration rendering).
pub trait HClock {
    type I: maybenot::time::Instant + Copy;
    fn inst(&self, t: u64) -> Self::I;
    fn iticks(&self, i: Self::I) -> u64;
    fn dticks(&self, d: <Self::I as maybenot::time::Instant>::Duration) -> u64;
}

pub struct VirtualClock;
impl HClock for VirtualClock {
    type I = VInstant;
    fn inst(&self, t: u64) -> VInstant {
        VInstant(t)
    }
    fn iticks(&self, i: VInstant) -> u64 {
        i.0
    }
    fn dticks(&self, d: VDuration) -> u64 {
        d.0
    }
}

/// std::time: ticks are nanoseconds after `base`
pub struct StdClock {
    pub base: std::time::Instant,
}
impl HClock for StdClock {
    type I = std::time::Instant;
    fn inst(&self, t: u64) -> std::time::Instant {
        self.base + std::time::Duration::from_nanos(t)
    }
    fn iticks(&self, i: std::time::Instant) -> u64 {
        i.saturating_duration_since(self.base).as_nanos().min(u64::MAX as u128) as u64
    }
    fn dticks(&self, d: std::time::Duration) -> u64 {
        d.as_nanos().min(u64::MAX as u128) as u64
    }
}

fn conv_snap<K: HClock>(k: &K, s: &Snapshot<K::I, <K::I as maybenot::time::Instant>::Duration>) -> Snap {
    Snapshot {
        current_time: VInstant(k.iticks(s.current_time)),
        framework_start: VInstant(k.iticks(s.framework_start)),
        machines: s
            .machines
            .iter()
            .map(|m| verif::MachineSnapshot {
                current_state: m.current_state,
                state_limit: m.state_limit,
                padding_sent: m.padding_sent,
                normal_sent: m.normal_sent,
                blocking_duration: VDuration(k.dticks(m.blocking_duration)),
                allowed_blocked_microsec: VDuration(k.dticks(m.allowed_blocked_microsec)),
                counter_a: m.counter_a,
                counter_b: m.counter_b,
                counter_zeroed_once: m.counter_zeroed_once,
            })
            .collect(),
        normal_sent_packets: s.normal_sent_packets,
        padding_sent_packets: s.padding_sent_packets,
        blocking_duration: VDuration(k.dticks(s.blocking_duration)),
        blocking_started: VInstant(k.iticks(s.blocking_started)),
        blocking_active: s.blocking_active,
        signal_pending: s.signal_pending,
        actions_set: s.actions_set.clone(),
    }
}

fn conv_action<K: HClock>(k: &K, a: &TriggerAction<K::I>) -> TriggerAction<VInstant> {
    match a {
        TriggerAction::Cancel { machine, timer } => TriggerAction::Cancel { machine: *machine, timer: *timer },
        TriggerAction::SendPadding { timeout, bypass, replace, machine } => {
            TriggerAction::SendPadding { timeout: VDuration(k.dticks(*timeout)), bypass: *bypass, replace: *replace, machine: *machine }
        }
        TriggerAction::BlockOutgoing { timeout, duration, bypass, replace, machine } => TriggerAction::BlockOutgoing {
            timeout: VDuration(k.dticks(*timeout)),
            duration: VDuration(k.dticks(*duration)),
            bypass: *bypass,
            replace: *replace,
            machine: *machine,
        },
        TriggerAction::UpdateTimer { duration, replace, machine } => {
            TriggerAction::UpdateTimer { duration: VDuration(k.dticks(*duration)), replace: *replace, machine: *machine }
        }
    }
}

pub fn run_case(c: &FwCase) -> FwRun {
    if c.std {
        run_case_on(c, &StdClock { base: std::time::Instant::now() + std::time::Duration::from_secs(3600) })
    } else {
        run_case_on(c, &VirtualClock)
    }
}

pub fn run_case_on<K: HClock>(c: &FwCase, k: &K) -> FwRun {
    run_case_with_rng(c, k, ScriptRng::new(c.script.clone(), c.seed))
}

pub fn run_case_with_rng<K: HClock, R: rand_core::RngCore>(c: &FwCase, k: &K, rng: R) -> FwRun {
    let mut run = FwRun::default();
    verif::arm(STEP_BUDGET);
    let fw = catch_unwind(AssertUnwindSafe(|| {
        Framework::new(&c.machines[..], c.fpad, c.fblk, k.inst(c.t0), rng)
    }));
    let mut fw = match fw {
        Err(e) => {
            let m = panic_msg(e);
            run.lines.push(vec![1, panic_kind(&m)]);
            run.panic = Some(m);
            let (t, _, _) = verif::take();
            tape_tokens(&t, &mut run.tape);
            verif::disarm();
            return run;
        }
        Ok(Err(e)) => {
            run.lines.push(vec![3]);
            run.new_err = Some(e.to_string());
            verif::disarm();
            return run;
        }
        Ok(Ok(f)) => f,
    };
    let (t, _, _) = verif::take();
    tape_tokens(&t, &mut run.tape);
    let snap = conv_snap(k, &fw.verif_snapshot());
    let mut line = vec![0];
    out_state(&snap, 0, run.tape.len() as u64, &mut line);
    run.lines.push(line);
    run.new_snap = Some(snap);

    for (time, evs) in &c.calls {
        let r = catch_unwind(AssertUnwindSafe(|| {
            let acts: Vec<TriggerAction<VInstant>> =
                fw.trigger_events(evs, k.inst(*time)).map(|a| conv_action(k, a)).collect();
            acts
        }));
        let (t, log, steps) = verif::take();
        tape_tokens(&t, &mut run.tape);
        match r {
            Err(e) => {
                let m = panic_msg(e);
                run.lines.push(vec![1, panic_kind(&m)]);
                run.panic = Some(m);
                break;
            }
            Ok(acts) => {
                let snap = conv_snap(k, &fw.verif_snapshot());
                let mut line = vec![0];
                out_state(&snap, steps, run.tape.len() as u64, &mut line);
                line.push(acts.len() as u64);
                for a in &acts {
                    out_action(a, &mut line);
                }
                line.push(log.len() as u64);
                for (a, b, c) in &log {
                    line.extend_from_slice(&[*a, *b, *c]);
                }
                run.lines.push(line);
                run.calls.push(CallRec {
                    actions: acts,
                    snap,
                    log,
                    steps,
                    pos: run.tape.len() as u64,
                });
            }
        }
    }
    verif::disarm();
    run
}

/// the wire encoding of a case, with the tape observed on the implementation
pub fn enc_case(c: &FwCase, tape: &[u64]) -> Toks {
    // tag 1: the virtual clock; tag 12: the std clock (nanosecond ticks)
    let mut o: Toks = vec![if c.std { 12 } else { 1 }];
    o.push(c.fpad.to_bits());
    o.push(c.fblk.to_bits());
    o.push(c.machines.len() as u64);
    for m in &c.machines {
        enc_machine(m, &mut o);
    }
    o.push(c.t0);
    o.push(c.calls.len() as u64);
    for (t, evs) in &c.calls {
        o.push(*t);
        o.push(evs.len() as u64);
        for e in evs {
            enc_event(e, &mut o);
        }
    }
    o.push(tape.len() as u64);
    o.extend_from_slice(tape);
    o
}
