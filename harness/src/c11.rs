//! C11: the codecs of the machine-string pipeline against the real crates,
//! byte for byte, plus the real pipeline on valid and hostile strings.
use crate::c12::{enc_mirror, from_mirror, to_mirror};
use crate::enc::*;
use crate::genm::*;
use crate::rng::SplitMix64;
use base64::prelude::*;
use bincode::Options;
use maybenot::Machine;
use std::io::Write;
use std::panic::{catch_unwind, AssertUnwindSafe};
use std::str::FromStr;

const V1: [&str; 3] = [
    "789cedca2101000000c230e85f1a8387009f9e351d051503ca0003",
    "789cd5cfbb0900200c04d08b833886adb889389f5bb9801be811acb58ae2837ce02010c158b070555c9538b6377a64dbb0ceff242c20b79038507dd169fbede9f629bf6f021efa1b66",
    "789ccdd14b4802411807f0d122d630a80e75e920646a9db2d24bd48c9587b012bc04415d32e856eca107d4210f792809a38804e910f400835ca88387d8961e144920b551aed8b59032cc0e59d16c0f41962510dafa0d0cc3cc77f8bef9cbc0b7e0092f06f131832c076f3f21c0e88d464f4c1b51449d3731df6b432feb0fa1f6e20e841f3fc801e5bd5f3d28efa43d8bbc1a1a5f6692e12589b860c84f62f752fbcd3e14605fb549f6bb6de86e0c1a7a028d88f09575d9a7dad2491120ff6279b0a1ca84ecf551ab6b418502adca267a486bc28f5fb20d4a7cb2db0d32fe34c94067ccda6d64afe1dba926585a782e5a2fb5dcdd9496721e42dfd5e35aed5e04865a0a9a13c3ec9ff62707db89d7b391233d1ae7a35458d219ce3049dd40b40827966d52e24a1c4a0be362a05fcde9923b97d0ecf1fa2b9f39c14f181ceeb914c74273f52cb9143e862b7d1554dd565850f7dfbd03f1ca70ff",
];

fn bin() -> impl Options {
    bincode::DefaultOptions::new().with_limit(1 << 20)
}

/// a valid machine whose bincode encoding has exactly `target` bytes
pub fn machine_of_size(target: u64) -> Option<Machine> {
    use enum_map::enum_map;
    use maybenot::event::Event;
    use maybenot::state::{State, Trans};
    let empty = || State::new(enum_map! { _ => vec![] });
    let size = |m: &Machine| bin().serialized_size(m).ok();
    let base = |k: usize, n: usize, a: u64, b: u64| {
        let mut st: Vec<State> = (0..k).map(|_| empty()).collect();
        if n > 0 {
            st[0] = State::new(enum_map! { Event::NormalSent => (0..n).map(|j| Trans(j % k, 1.0 / (n as f32 + 1.0))).collect(), _ => vec![] });
        }
        Machine::new(a, 1.0, b, 1.0, st)
    };
    let one = size(&base(1, 0, 0, 0).ok()?)?;
    let two = size(&base(2, 0, 0, 0).ok()?)?;
    let per = two - one;
    let k0 = ((target.saturating_sub(one)) / per + 1) as usize;
    for k in (k0.saturating_sub(3)..=k0).rev() {
        if k == 0 {
            continue;
        }
        for n in 0..12usize {
            for a in [0u64, 251, 70000, 1 << 33] {
                for b in [0u64, 251, 70000, 1 << 33] {
                    if let Ok(m) = base(k, n, a, b) {
                        if bincode::DefaultOptions::new().serialized_size(&m).ok() == Some(target) {
                            return Some(m);
                        }
                    }
                }
            }
        }
    }
    None
}


/// payloads for the legacy v1 parser: the inflated test blobs (mutated), and structured random
/// payloads following the layout (35-byte header, n blocks of 106 + 64(n+2) bytes)
fn gen_v1_payload(r: &mut SplitMix64) -> Vec<u8> {
    use std::io::Read;
    let f64s = [0.0f64, 0.0, 0.0, 1.0, 0.5, 0.25, 0.75, 1.0000001, -0.0, -1.0, 2.0, 10.0, 1e6, f64::NAN, f64::INFINITY, 1e-320, 0.1, 0.3333333333333333];
    if r.chance(1, 3) {
        let t = V1[r.below(3) as usize];
        let comp: Vec<u8> = (0..t.len() / 2).map(|j| u8::from_str_radix(&t[2 * j..2 * j + 2], 16).unwrap()).collect();
        let mut d = flate2::read::ZlibDecoder::new(&comp[..]);
        let mut buf = vec![];
        d.read_to_end(&mut buf).unwrap();
        let mut p = buf[2..].to_vec();
        if r.chance(4, 5) {
            for _ in 0..r.range(1, 4) {
                if p.is_empty() {
                    break;
                }
                let k = r.below(p.len() as u64) as usize;
                match r.below(6) {
                    0 => p[k] ^= 1 << r.below(8),
                    1 => p[k] = *r.pick(&[0, 1, 2, 5, 7, 10, 11, 255]),
                    2 => p.truncate(k),
                    3 => p.push(r.next() as u8),
                    4 => {
                        // overwrite an aligned f64 with a special value
                        let v = r.pick(&f64s).to_le_bytes();
                        for (j, x) in v.iter().enumerate() {
                            if k + j < p.len() {
                                p[k + j] = *x;
                            }
                        }
                    }
                    _ => {
                        p.remove(k);
                    }
                }
            }
        }
        return p;
    }
    let n = r.range(0, 3) as usize;
    let mut p: Vec<u8> = vec![];
    p.extend_from_slice(&(*r.pick(&[0u64, 1, 100, u64::MAX])).to_le_bytes());
    p.extend_from_slice(&r.pick(&f64s).to_le_bytes());
    p.extend_from_slice(&(*r.pick(&[0u64, 1000, u64::MAX])).to_le_bytes());
    p.extend_from_slice(&r.pick(&f64s).to_le_bytes());
    p.push(r.below(3) as u8);
    let declared = if r.chance(1, 8) { (n as u16).wrapping_add(*r.pick(&[1u16, 0xffff, 100])) } else { n as u16 };
    p.extend_from_slice(&declared.to_le_bytes());
    for _ in 0..n {
        for _ in 0..3 {
            // dist: type, p1, p2, start, max
            let ty: u16 = if r.chance(1, 3) { 0 } else { r.below(13) as u16 };
            p.extend_from_slice(&ty.to_le_bytes());
            for _ in 0..4 {
                p.extend_from_slice(&r.pick(&f64s).to_le_bytes());
            }
        }
        for _ in 0..4 {
            p.push(*r.pick(&[0u8, 1, 1, 2]));
        }
        for _row in 0..8 {
            let hot = if r.chance(2, 3) { r.below(n as u64 + 3) as usize } else { usize::MAX };
            for i in 0..n + 2 {
                let v = if i == hot { *r.pick(&[1.0f64, 1.0, 0.5, 0.25, 1.0000001, f64::NAN]) } else if r.chance(1, 12) { *r.pick(&f64s) } else { 0.0 };
                p.extend_from_slice(&v.to_le_bytes());
            }
        }
    }
    if r.chance(1, 10) {
        if r.chance(1, 2) {
            p.pop();
        } else {
            p.push(0);
        }
    }
    p
}

fn mutate_bytes(r: &mut SplitMix64, b: &mut Vec<u8>) {
    if b.is_empty() {
        b.push(r.next() as u8);
        return;
    }
    for _ in 0..r.range(1, 3) {
        let i = r.below(b.len() as u64) as usize;
        match r.below(7) {
            0 => b[i] ^= 1 << r.below(8),
            1 => b[i] = *r.pick(&[0, 1, 2, 250, 251, 252, 253, 254, 255]),
            2 => {
                b.truncate(i);
            }
            3 => b.insert(i, r.next() as u8),
            4 => {
                b.remove(i);
            }
            5 => b.push(r.next() as u8),
            _ => {
                let v = r.next().to_le_bytes();
                for (k, x) in v.iter().enumerate() {
                    if i + k < b.len() {
                        b[i + k] = *x;
                    }
                }
            }
        }
        if b.is_empty() {
            break;
        }
    }
}

fn bytes_toks(tag: u64, b: &[u8]) -> Toks {
    let mut t: Toks = vec![tag];
    t.extend(b.iter().map(|x| *x as u64));
    t
}

pub fn run(seed: u64, n: usize, out: &str, only: Option<usize>) {
    std::fs::create_dir_all(out).unwrap();
    let mut cases = std::io::BufWriter::new(std::fs::File::create(format!("{}/cases.txt", out)).unwrap());
    let mut implo = std::io::BufWriter::new(std::fs::File::create(format!("{}/impl.out", out)).unwrap());
    let mut meta = std::io::BufWriter::new(std::fs::File::create(format!("{}/meta.txt", out)).unwrap());
    let mut master = SplitMix64::new(seed ^ 0xc11);
    let mut viol = 0usize;
    let mut kinds = [0usize; 7];
    let mut distinct = std::collections::HashSet::new();
    let mut accepted_mutants = 0usize;
    let mut max_bytes = 0usize;
    let mut nsample = 0;
    let mut nboundary = 0usize;
    let mut v1_accepted = 0usize;
    let mut boundary_sizes: Vec<u64> = vec![];
    // Compression bombs: "memory bounded by a constant fixed by the limit plus the length of the input,
    // independent of how far the input would decompress". The same fill is compressed at three sizes far
    // beyond the limit; what from_str allocates (peak heap growth, counting allocator) may grow with the
    // LENGTH OF THE STRING but not with the decompressed size. Runs on every invocation (also replays).
    let mut bomb_peaks: Vec<(usize, usize, usize)> = vec![];
    {
        // a valid machine's encoding followed by filler: the part below the limit looks legitimate
        let prefix = bin().serialize(&gen_machine(&mut SplitMix64::new(seed ^ 0xb0b), &MProfile::mixed())).unwrap();
        for (fi, fill) in [0u8, 255u8, 0x41u8].iter().enumerate() {
            let mut row: Vec<(usize, usize, usize)> = vec![];
            for mib in [3usize, 24, 96] {
                let mut raw: Vec<u8> = if fi == 2 { prefix.clone() } else { vec![] };
                raw.resize(mib << 20, *fill);
                let mut e = flate2::write::ZlibEncoder::new(Vec::new(), flate2::Compression::fast());
                e.write_all(&raw).unwrap();
                drop(raw);
                let text = format!("02{}", BASE64_STANDARD.encode(e.finish().unwrap()));
                let (res, peak) = crate::heapcount::peak_during(|| catch_unwind(AssertUnwindSafe(|| Machine::from_str(&text).map(|_| ()))));
                match res {
                    Err(_) => {
                        viol += 1;
                        writeln!(meta, "violation case=0 from_str panicked on a compression bomb of {} MiB (fill {:#x})", mib, fill).unwrap();
                    }
                    Ok(Ok(())) => {
                        viol += 1;
                        writeln!(meta, "violation case=0 from_str accepted a string that decompresses to {} MiB, beyond the 1 MiB limit", mib).unwrap();
                    }
                    Ok(Err(_)) => {}
                }
                row.push((mib, text.len(), peak));
            }
            let (_, len0, peak0) = row[0];
            for (mib, len, peak) in &row[1..] {
                // allowance: 8 bytes per additional input byte (base64 decoding, error strings) + 64 KiB slack
                if *peak > peak0 + 8 * len.saturating_sub(len0) + (64 << 10) {
                    viol += 1;
                    writeln!(
                        meta,
                        "violation case=0 from_str's memory grows with the decompressed size of a compression bomb: fill {:#x}, a {}-byte string inflating to 3 MiB peaks at {} bytes, a {}-byte string inflating to {} MiB at {} bytes",
                        fill, len0, peak0, len, mib, peak
                    )
                    .unwrap();
                    break;
                }
            }
            bomb_peaks.extend(row);
        }
    }
    // short and whitespace-laden strings (every run): lengths around the 3-byte minimum, blanks that a
    // trim would remove, a valid string with blanks or line ends around it
    {
        let valid = gen_machine(&mut SplitMix64::new(seed ^ 0x5a5a), &MProfile::mixed()).serialize();
        let mut hostile: Vec<String> = ["", " ", "0", "02", "  ", "   ", "\n\n\n", "\t \r\n", "0\n\n", "2  ", " 0 ", "  2\n", "02 ", "02\n", " 02", "02=", "02==", "02A", "02AA", "02AA==", "02A===", "\u{0}\u{0}\u{0}", "                ", "0\u{e9}AAAA", "2\u{20ac}AAAA", "9\u{fffd}\u{fffd}", "02\u{e9}", "\u{e9}02AA", "02AA\u{e9}=", "0\u{1f600}", "\u{7f}\u{80}\u{80}"]
            .iter()
            .map(|x| x.to_string())
            .collect();
        for (pre, post) in [("", "\n"), ("", "\r\n"), (" ", ""), ("", " "), ("\n", "\n"), ("", "="), ("", "\u{0}")] {
            hostile.push(format!("{}{}{}", pre, valid, post));
        }
        hostile.push(valid.to_uppercase());
        hostile.push(valid.to_lowercase());
        for text in &hostile {
            match catch_unwind(AssertUnwindSafe(|| Machine::from_str(text))) {
                Err(_) => {
                    viol += 1;
                    writeln!(meta, "violation case=0 from_str panicked on the {}-byte string {:?}", text.len(), &text[..text.len().min(60)]).unwrap();
                }
                Ok(Ok(mm)) => {
                    if mm.validate().is_err() {
                        viol += 1;
                        writeln!(meta, "violation case=0 from_str returned a machine that does not pass validation for {:?}", &text[..text.len().min(60)]).unwrap();
                    }
                }
                Ok(Err(_)) => {}
            }
        }
    }
    for i in 0..n {
        let mut r = master.fork();
        if let Some(o) = only {
            if o != i {
                continue;
            }
        }
        let mut mp = MProfile::mixed();
        mp.max_states = if r.chance(1, 40) { 2000 } else if r.chance(1, 6) { 40 } else { 4 };
        mp.big_counters = true;
        if r.chance(1, 4) {
            mp.dist = DistMode::Heavy;
        }
        let m = gen_machine(&mut r, &mp);
        let bytes = bin().serialize(&m).unwrap();
        max_bytes = max_bytes.max(bytes.len());
        let kind = r.below(7) as usize;
        kinds[kind] += 1;
        let mut violation: Option<String> = None;
        let (toks, line): (Toks, Toks) = match kind {
            0 => {
                // bincode encoding, byte for byte
                let mut t: Toks = vec![5];
                enc_mirror(&to_mirror(&m), &mut t);
                let mut l: Toks = vec![1];
                l.extend(bytes.iter().map(|x| *x as u64));
                (t, l)
            }
            1 => {
                // base64 encoding of the real compressed payload (or of random bytes)
                let s = m.serialize();
                let payload: Vec<u8> = if r.chance(1, 2) {
                    BASE64_STANDARD.decode(&s.as_bytes()[2..]).unwrap()
                } else {
                    (0..r.range(0, 40)).map(|_| r.next() as u8).collect()
                };
                let text = BASE64_STANDARD.encode(&payload);
                (bytes_toks(6, &payload), text.bytes().map(|x| x as u64).collect())
            }
            2 => {
                // base64 decoding of mutated text
                let mut text: Vec<u8> = m.serialize().as_bytes()[2..].to_vec();
                if text.len() > 64 && r.chance(1, 2) {
                    text.truncate(r.range(0, 24) as usize);
                    // keep some well-formed short texts too
                    if r.chance(1, 2) {
                        text = BASE64_STANDARD.encode(&text).into_bytes();
                    }
                }
                if r.chance(3, 4) {
                    let i = if text.is_empty() { 0 } else { r.below(text.len() as u64) as usize };
                    match r.below(6) {
                        0 if !text.is_empty() => text[i] = *r.pick(&[b'=', b'-', b'_', b' ', b'\n', 0x80, b'A', b'/', b'+']),
                        1 => text.push(*r.pick(&[b'=', b'A', b'B'])),
                        2 if !text.is_empty() => {
                            text.pop();
                        }
                        3 if !text.is_empty() => {
                            // non-canonical trailing bits
                            let l = text.len();
                            if l >= 2 && text[l - 1] == b'=' {
                                let k = if text[l - 2] == b'=' { l - 3 } else { l - 2 };
                                text[k] = *r.pick(&[b'B', b'R', b'/', b'1']);
                            }
                        }
                        4 => text.insert(i, b'='),
                        _ => {}
                    }
                }
                let l: Toks = match BASE64_STANDARD.decode(&text) {
                    Ok(b) => {
                        let mut l: Toks = vec![1];
                        l.extend(b.iter().map(|x| *x as u64));
                        l
                    }
                    Err(_) => vec![0],
                };
                (bytes_toks(7, &text), l)
            }
            3 | 4 => {
                // bincode decoding of mutated bytes: accept/reject and the decoded value (re-encoded)
                let mut b = bytes.clone();
                if b.len() > 4000 {
                    b = bin().serialize(&gen_machine(&mut r, &MProfile::mixed())).unwrap();
                }
                mutate_bytes(&mut r, &mut b);
                let res = catch_unwind(AssertUnwindSafe(|| bin().deserialize::<Machine>(&b)));
                let l: Toks = match res {
                    Err(_) => {
                        violation = Some("bincode deserialisation panicked".into());
                        vec![9]
                    }
                    Ok(Err(_)) => vec![0],
                    Ok(Ok(mm)) => {
                        accepted_mutants += 1;
                        let mut l: Toks = vec![1, mm.validate().is_ok() as u64];
                        l.extend(bin().serialize(&mm).unwrap().iter().map(|x| *x as u64));
                        l
                    }
                };
                (bytes_toks(8, &b), l)
            }
            6 => {
                // the legacy v1 parser against its model: the decompressed payload (after the two
                // version bytes) is the case; the real parser gets it zlib-compressed and hex-encoded
                let payload = gen_v1_payload(&mut r);
                let mut full = vec![1u8, 0u8];
                full.extend_from_slice(&payload);
                let mut e = flate2::write::ZlibEncoder::new(Vec::new(), flate2::Compression::fast());
                e.write_all(&full).unwrap();
                let hexs: String = e.finish().unwrap().iter().map(|b| format!("{:02x}", b)).collect();
                let l: Toks = match catch_unwind(AssertUnwindSafe(|| maybenot::parsing::parse_v1_machine(&hexs))) {
                    Err(_) => {
                        violation = Some(format!("parse_v1_machine panicked on a {}-byte payload", payload.len()));
                        vec![9]
                    }
                    Ok(Err(_)) => vec![0],
                    Ok(Ok(mm)) => {
                        v1_accepted += 1;
                        if mm.validate().is_err() {
                            violation = Some("parse_v1_machine returned a machine that does not pass validation".into());
                        }
                        let mut l: Toks = vec![1];
                        l.extend(bin().serialize(&mm).unwrap().iter().map(|x| *x as u64));
                        l
                    }
                };
                (bytes_toks(11, &payload), l)
            }
            _ => {
                // the real pipeline: round trip, then hostile strings (no model case: a trivial codec case keeps indices aligned)
                // encodings at the documented limit: exactly 1 MiB, one below, and small ones
                let m = if nboundary < 2 {
                    nboundary += 1;
                    let target = (1u64 << 20) + 1 - nboundary as u64;
                    match machine_of_size(target) {
                        Some(b) => {
                            boundary_sizes.push(target);
                            b
                        }
                        None => m.clone(),
                    }
                } else {
                    m.clone()
                };
                let s = m.serialize();
                match catch_unwind(AssertUnwindSafe(|| Machine::from_str(&s))) {
                    Ok(Ok(m2)) => {
                        if m2.serialize() != s || m2.name() != m.name() {
                            violation = Some("from_str(serialize(m)) serializes differently".into());
                        }
                    }
                    Ok(Err(e)) => violation = Some(format!("from_str rejected a serialized valid machine: {}", e)),
                    Err(_) => violation = Some("from_str panicked on a serialized machine".into()),
                }
                // hostile variants
                for _ in 0..6 {
                    let mut t = s.clone().into_bytes();
                    match r.below(6) {
                        0 => {
                            // mutate the decompressed payload and re-compress
                            let mut b = bytes.clone();
                            mutate_bytes(&mut r, &mut b);
                            let mut e = flate2::write::ZlibEncoder::new(Vec::new(), flate2::Compression::best());
                            e.write_all(&b).unwrap();
                            t = format!("02{}", BASE64_STANDARD.encode(e.finish().unwrap())).into_bytes();
                        }
                        1 => {
                            // zlib bomb: far beyond the limit
                            let b = vec![*r.pick(&[0u8, 1, 255]); (1 << 20) + r.below(1 << 22) as usize];
                            let mut e = flate2::write::ZlibEncoder::new(Vec::new(), flate2::Compression::best());
                            e.write_all(&b).unwrap();
                            t = format!("02{}", BASE64_STANDARD.encode(e.finish().unwrap())).into_bytes();
                        }
                        2 => {
                            t[0] = *r.pick(&[b'0', b'1', b'9']);
                            t[1] = *r.pick(&[b'1', b'3', b'2']);
                        }
                        3 => {
                            let k = r.below(t.len() as u64) as usize;
                            t.truncate(k);
                        }
                        4 => {
                            let k = r.below(t.len() as u64) as usize;
                            t[k] = *r.pick(&[0xc3, b'=', b'!', 0x00, b'A']);
                        }
                        _ => {
                            t = (0..r.range(0, 60)).map(|_| r.next() as u8).collect();
                        }
                    }
                    if let Ok(text) = String::from_utf8(t) {
                        match catch_unwind(AssertUnwindSafe(|| Machine::from_str(&text))) {
                            Err(_) => violation = Some(format!("from_str panicked on {:?}", &text[..text.len().min(80)])),
                            Ok(Ok(mm)) => {
                                if mm.validate().is_err() {
                                    violation = Some("from_str returned a machine that does not pass validation".into());
                                }
                            }
                            Ok(Err(_)) => {}
                        }
                    }
                }
                // legacy v1 parser on mutated blobs
                for _ in 0..4 {
                    let mut t = V1[r.below(3) as usize].as_bytes().to_vec();
                    if r.chance(3, 4) {
                        let k = r.below(t.len() as u64) as usize;
                        match r.below(4) {
                            0 => t[k] = *r.pick(&[b'0', b'f', b'7', b'g', b'8']),
                            1 => t.truncate(k),
                            2 => t.insert(k, *r.pick(&[b'0', b'a'])),
                            _ => {
                                // mutate the decompressed v1 payload and re-compress
                                use std::io::Read;
                                let comp: Vec<u8> = (0..t.len() / 2).map(|j| u8::from_str_radix(std::str::from_utf8(&t[2 * j..2 * j + 2]).unwrap(), 16).unwrap()).collect();
                                let mut d = flate2::read::ZlibDecoder::new(&comp[..]);
                                let mut buf = vec![];
                                if d.read_to_end(&mut buf).is_ok() {
                                    mutate_bytes(&mut r, &mut buf);
                                    let mut e = flate2::write::ZlibEncoder::new(Vec::new(), flate2::Compression::best());
                                    e.write_all(&buf).unwrap();
                                    t = e.finish().unwrap().iter().map(|b| format!("{:02x}", b)).collect::<String>().into_bytes();
                                }
                            }
                        }
                    }
                    if let Ok(text) = String::from_utf8(t) {
                        match catch_unwind(AssertUnwindSafe(|| maybenot::parsing::parse_v1_machine(&text))) {
                            Err(_) => violation = Some(format!("parse_v1_machine panicked on {:?}", &text[..text.len().min(80)])),
                            Ok(Ok(mm)) => {
                                if mm.validate().is_err() {
                                    violation = Some("parse_v1_machine returned a machine that does not pass validation".into());
                                }
                            }
                            Ok(Err(_)) => {}
                        }
                    }
                }
                (bytes_toks(6, &[]), vec![])
            }
        };
        writeln!(cases, "{}", hex_line(None, &toks)).unwrap();
        writeln!(implo, "{}", hex_line(Some(i), &line)).unwrap();
        distinct.insert(toks);
        if let Some(v) = violation {
            viol += 1;
            writeln!(meta, "violation case={} {} (machine {})", i, v, &m.serialize()[..60.min(m.serialize().len())]).unwrap();
        }
        if nsample < 3 && kind == 3 {
            nsample += 1;
            writeln!(meta, "sample case={} kind=bincode-decode-mutated machine={}", i, m.serialize()).unwrap();
        }
        if only.is_some() {
            writeln!(meta, "replay case={} kind={} machine={}", i, kind, m.serialize()).unwrap();
        }
        let _ = from_mirror;
    }
    let bomb_txt: Vec<String> = bomb_peaks.iter().map(|(m, l, p)| format!("{}MiB/{}B:{}B", m, l, p)).collect();
    writeln!(meta, "summary cases={} nontrivial={} violations={} kinds={:?} accepted_mutants={} max_bincode_bytes={} limit_boundary_sizes={:?} v1_accepted={} bomb_inflated_MiB_over_string_bytes_to_peak_heap_bytes=[{}]", n, distinct.len(), viol, kinds, accepted_mutants, max_bytes, boundary_sizes, v1_accepted, bomb_txt.join(",")).unwrap();
}
