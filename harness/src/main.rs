mod c06;
mod c11;
mod c12;
mod c13;
mod c20;
mod distprobe;
mod enc;
mod fw;
mod genm;
mod props;
mod rng;
mod sim;
mod simlong;
mod simprops;
mod stdprobe;
mod vclock;

use rng::SplitMix64;
use std::collections::HashSet;

/// Counting allocator: live and peak heap bytes of this process (used by the C11 tie to measure what
/// `Machine::from_str` allocates on compression bombs; two relaxed atomic operations per allocation).
pub mod heapcount {
    use std::alloc::{GlobalAlloc, Layout, System};
    use std::sync::atomic::{AtomicUsize, Ordering::Relaxed};
    pub static LIVE: AtomicUsize = AtomicUsize::new(0);
    pub static PEAK: AtomicUsize = AtomicUsize::new(0);
    pub struct Counting;
    unsafe impl GlobalAlloc for Counting {
        unsafe fn alloc(&self, l: Layout) -> *mut u8 {
            let p = System.alloc(l);
            if !p.is_null() {
                let now = LIVE.fetch_add(l.size(), Relaxed) + l.size();
                PEAK.fetch_max(now, Relaxed);
            }
            p
        }
        unsafe fn dealloc(&self, p: *mut u8, l: Layout) {
            System.dealloc(p, l);
            LIVE.fetch_sub(l.size(), Relaxed);
        }
        unsafe fn realloc(&self, p: *mut u8, l: Layout, new: usize) -> *mut u8 {
            let q = System.realloc(p, l, new);
            if !q.is_null() {
                if new >= l.size() {
                    let now = LIVE.fetch_add(new - l.size(), Relaxed) + (new - l.size());
                    PEAK.fetch_max(now, Relaxed);
                } else {
                    LIVE.fetch_sub(l.size() - new, Relaxed);
                }
            }
            q
        }
    }
    /// peak heap growth (bytes above the level at entry) while `f` runs
    pub fn peak_during<R>(f: impl FnOnce() -> R) -> (R, usize) {
        let base = LIVE.load(Relaxed);
        PEAK.store(base, Relaxed);
        let r = f();
        (r, PEAK.load(Relaxed).saturating_sub(base))
    }
}
#[global_allocator]
static GLOBAL: heapcount::Counting = heapcount::Counting;
use std::fs::File;
use std::io::{BufWriter, Write};

fn arg(args: &[String], name: &str) -> Option<String> {
    args.iter()
        .position(|a| a == name)
        .and_then(|i| args.get(i + 1).cloned())
}

fn prop_seed(prop: &str, seed: u64) -> u64 {
    let mut h: u64 = 0xcbf29ce484222325;
    for b in prop.bytes() {
        h = (h ^ b as u64).wrapping_mul(0x100000001b3);
    }
    h ^ seed.wrapping_mul(0x9E3779B97F4A7C15)
}

fn describe_case(i: usize, c: &fw::FwCase, run: &fw::FwRun) -> String {
    let ms: Vec<String> = c.machines.iter().map(|m| m.serialize()).collect();
    let calls: Vec<String> = c
        .calls
        .iter()
        .zip(run.calls.iter())
        .map(|((t, evs), rec)| {
            let e: Vec<String> = evs
                .iter()
                .map(|e| {
                    let mut t = vec![];
                    enc::enc_event(e, &mut t);
                    format!("{}{}", e, if [4, 6, 8, 9].contains(&t[0]) { format!("#{}", t[1]) } else { String::new() })
                })
                .collect();
            format!("t={} [{}] -> {} action(s)", t, e.join(","), rec.actions.len())
        })
        .collect();
    format!(
        "case={} machines={:?} max_padding_frac={} max_blocking_frac={} t0={} rng_script={:?} calls={:?}",
        i, ms, c.fpad, c.fblk, c.t0, c.script, calls
    )
}

fn cmd_fw(args: &[String]) {
    let prop = arg(args, "--prop").expect("--prop");
    let seed: u64 = arg(args, "--seed").map(|s| s.parse().unwrap()).unwrap_or(1);
    let n: usize = arg(args, "--n").map(|s| s.parse().unwrap()).unwrap_or(100);
    let out = arg(args, "--out").expect("--out");
    let only: Option<usize> = arg(args, "--only").map(|s| s.parse().unwrap());
    std::fs::create_dir_all(&out).unwrap();
    let mut cases = BufWriter::new(File::create(format!("{}/cases.txt", out)).unwrap());
    let mut implo = BufWriter::new(File::create(format!("{}/impl.out", out)).unwrap());
    let mut meta = BufWriter::new(File::create(format!("{}/meta.txt", out)).unwrap());
    let mut master = SplitMix64::new(prop_seed(&prop, seed));
    let mut nontrivial = HashSet::new();
    let mut violations = 0usize;
    let mut panics = 0usize;
    let mut calls = 0usize;
    let mut events = 0usize;
    let mut actions = 0usize;
    let mut ev_kinds = [0usize; 10];
    let mut prob_pairs = [0usize; 3]; // C10: probabilistic pairs run, in which the machine drew random words, and also acted
    for i in 0..n {
        let mut r = master.fork();
        if let Some(o) = only {
            if o != i {
                continue;
            }
        }
        if prop == "C10" {
            let (comb, solo, pos) = props::gen_c10_pair(&mut r);
            let (rc, rs) = (fw::run_case(&comb), fw::run_case(&solo));
            for (k, (c, run)) in [(&comb, &rc), (&solo, &rs)].iter().enumerate() {
                let toks = fw::enc_case(c, &run.tape);
                writeln!(cases, "{}", enc::hex_line(None, &toks)).unwrap();
                for l in &run.lines {
                    writeln!(implo, "{}", enc::hex_line(Some(2 * i + k), l)).unwrap();
                }
            }
            calls += comb.calls.len();
            actions += rc.calls.iter().map(|c| c.actions.len()).sum::<usize>();
            if rs.calls.iter().any(|c| !c.actions.is_empty()) {
                if nontrivial.len() < 3 {
                    writeln!(meta, "sample position={} combined: {} || solo: {}", pos, describe_case(2 * i, &comb, &rc), describe_case(2 * i + 1, &solo, &rs)).unwrap();
                }
                nontrivial.insert(fw::enc_case(&comb, &rc.tape));
            }
            if only.is_some() {
                writeln!(meta, "replay position={} combined: {} || solo: {}", pos, describe_case(2 * i, &comb, &rc), describe_case(2 * i + 1, &solo, &rs)).unwrap();
            }
            if let Some(v) = props::mon_c10(&rc, &rs, pos) {
                violations += 1;
                writeln!(meta, "violation case={} {}", i, v).unwrap();
            }
            // the same property for an arbitrary (probabilistic) machine, directly on the implementation
            let (v, drew, acted) = props::c10_prob_direct(&mut r);
            prob_pairs[0] += 1;
            prob_pairs[1] += drew as usize;
            prob_pairs[2] += (drew && acted) as usize;
            if let Some(v) = v {
                violations += 1;
                writeln!(meta, "violation case={} {}", i, v).unwrap();
            }
            continue;
        }
        let c = props::gen_case(&prop, &mut r);
        let run = fw::run_case(&c);
        if only.is_some() {
            writeln!(meta, "replay {}", describe_case(i, &c, &run)).unwrap();
        }
        let toks = fw::enc_case(&c, &run.tape);
        writeln!(cases, "{}", enc::hex_line(None, &toks)).unwrap();
        for l in &run.lines {
            writeln!(implo, "{}", enc::hex_line(Some(i), l)).unwrap();
        }
        if run.panic.is_some() {
            panics += 1;
            writeln!(meta, "panic case={} msg={}", i, run.panic.as_ref().unwrap()).unwrap();
        }
        calls += c.calls.len();
        for (_, evs) in &c.calls {
            events += evs.len();
            for e in evs {
                let mut t = vec![];
                enc::enc_event(e, &mut t);
                ev_kinds[t[0] as usize] += 1;
            }
        }
        actions += run.calls.iter().map(|c| c.actions.len()).sum::<usize>();
        if props::nontrivial(&prop, &c, &run) {
            if nontrivial.len() < 3 {
                writeln!(meta, "sample {}", describe_case(i, &c, &run)).unwrap();
            }
            nontrivial.insert(toks.clone());
        }
        if let Some(v) = props::monitor(&prop, &c, &run) {
            violations += 1;
            writeln!(meta, "violation case={} {}", i, v).unwrap();
        }
    }
    writeln!(
        meta,
        "summary cases={} nontrivial={} violations={} panics={} calls={} events={} actions={} ev_kinds={:?} probabilistic_pairs_run_drew_acted={:?}",
        n,
        nontrivial.len(),
        violations,
        panics,
        calls,
        events,
        actions,
        ev_kinds,
        prob_pairs
    )
    .unwrap();
}

fn main() {
    if std::env::var("VHARNESS_PANIC").is_ok() {
        std::panic::set_hook(Box::new(|i| eprintln!("PANIC: {}", i)));
    } else {
        std::panic::set_hook(Box::new(|_| {}));
    }
    let args: Vec<String> = std::env::args().collect();
    match args.get(1).map(|s| s.as_str()) {
        Some("fw") => cmd_fw(&args[2..]),
        Some("c06") => {
            let a = &args[2..];
            c06::run(
                arg(a, "--seed").map(|s| s.parse().unwrap()).unwrap_or(1),
                arg(a, "--n").map(|s| s.parse().unwrap()).unwrap_or(40),
                &arg(a, "--out").expect("--out"),
                arg(a, "--only").map(|s| s.parse().unwrap()),
            )
        }
        Some("c11size") => {
            for t in [(1u64 << 20), (1 << 20) - 1, (1 << 20) - 2, 1000, 1001] {
                let m = c11::machine_of_size(t);
                println!("{} -> {:?}", t, m.map(|m| (m.states.len(), m.validate().is_ok())));
            }
        }
        Some("c11") => {
            let a = &args[2..];
            c11::run(
                arg(a, "--seed").map(|s| s.parse().unwrap()).unwrap_or(1),
                arg(a, "--n").map(|s| s.parse().unwrap()).unwrap_or(200),
                &arg(a, "--out").expect("--out"),
                arg(a, "--only").map(|s| s.parse().unwrap()),
            )
        }
        Some("c20") => {
            let a = &args[2..];
            c20::run(
                arg(a, "--seed").map(|s| s.parse().unwrap()).unwrap_or(1),
                arg(a, "--n").map(|s| s.parse().unwrap()).unwrap_or(200),
                &arg(a, "--out").expect("--out"),
                arg(a, "--only").map(|s| s.parse().unwrap()),
            )
        }
        Some("sim") => {
            let a = &args[2..];
            let prop = arg(a, "--prop").expect("--prop");
            let seed: u64 = arg(a, "--seed").map(|s| s.parse().unwrap()).unwrap_or(1);
            let n: usize = arg(a, "--n").map(|s| s.parse().unwrap()).unwrap_or(100);
            let out = arg(a, "--out").expect("--out");
            let only: Option<usize> = arg(a, "--only").map(|s| s.parse().unwrap());
            std::fs::create_dir_all(&out).unwrap();
            // The real simulator may not return (that is a C19 violation in itself): the cases run in a
            // child process that reports the case it is working on; the supervisor kills a child that
            // makes no progress, records the case, and restarts after it.
            let from: usize = arg(a, "--from").map(|s| s.parse().unwrap()).unwrap_or(0);
            let progress = format!("{}/progress.txt", out);
            if std::env::var("VH_SIM_CHILD").is_err() {
                let exe = std::env::current_exe().unwrap();
                let mut from = 0usize;
                let mut hangs = 0usize;
                let stall = std::time::Duration::from_secs(std::env::var("VH_SIM_STALL").ok().and_then(|s| s.parse().ok()).unwrap_or(20));
                loop {
                    let _ = std::fs::remove_file(&progress);
                    let mut cmd = std::process::Command::new(&exe);
                    cmd.args(&args[1..]).arg("--from").arg(from.to_string()).env("VH_SIM_CHILD", "1");
                    let mut child = cmd.spawn().expect("spawn sim child");
                    let mut last = (String::new(), std::time::Instant::now());
                    let status = loop {
                        std::thread::sleep(std::time::Duration::from_millis(50));
                        if let Some(st) = child.try_wait().unwrap() {
                            break Some(st);
                        }
                        let cur = std::fs::read_to_string(&progress).unwrap_or_default();
                        if cur != last.0 {
                            last = (cur, std::time::Instant::now());
                        } else if last.1.elapsed() > stall {
                            let _ = child.kill();
                            let _ = child.wait();
                            break None;
                        }
                    };
                    if status.map_or(false, |s| s.success()) {
                        break;
                    }
                    let k: usize = std::fs::read_to_string(&progress).ok().and_then(|s| s.trim().parse().ok()).unwrap_or(from);
                    let mut meta = std::fs::OpenOptions::new().append(true).create(true).open(format!("{}/meta.txt", out)).unwrap();
                    let what = if status.is_none() { format!("made no progress for {} s (sim_advanced does not return or the run never stops)", stall.as_secs()) } else { "crashed the harness process (abort, stack overflow or out of memory)".to_string() };
                    if prop == "C19" {
                        writeln!(meta, "violation case={} the simulation {}", k, what).unwrap();
                    } else {
                        writeln!(meta, "panic case={} the simulation {}", k, what).unwrap();
                    }
                    from = k + 1;
                    hangs += 1;
                    // a few such cases establish the failure; the rest of the run would only cost time
                    if from >= n || only.is_some() || hangs >= 3 {
                        writeln!(meta, "summary cases={} nontrivial=0 violations=1 panics=0 events=0", n).unwrap();
                        break;
                    }
                }
                return;
            }
            let open = |name: &str| {
                let p = format!("{}/{}", out, name);
                if from > 0 {
                    std::fs::OpenOptions::new().append(true).create(true).open(p).unwrap()
                } else {
                    File::create(p).unwrap()
                }
            };
            let mut cases = BufWriter::new(open("cases.txt"));
            let mut implo = BufWriter::new(open("impl.out"));
            let mut meta = BufWriter::new(open("meta.txt"));
            let mut master = SplitMix64::new(prop_seed(&prop, seed));
            let (mut viol, mut panics, mut events) = (0usize, 0usize, 0usize);
            let mut nontrivial = HashSet::new();
            let mut known_seen: std::collections::BTreeMap<&'static str, usize> = Default::default();
            let corpus = sim::corpus(&prop);
            let (mut dist_kinds, mut dist_mach, mut dist_flags, mut dist_len) = ([0usize; 10], [0usize; 5], [0usize; 6], [0usize; 4]);
            for i in 0..n {
                let mut r = master.fork();
                if let Some(o) = only {
                    if o != i {
                        continue;
                    }
                }
                if i < from {
                    continue;
                }
                cases.flush().unwrap();
                implo.flush().unwrap();
                meta.flush().unwrap();
                std::fs::write(&progress, i.to_string()).unwrap();
                let c = if i < corpus.len() { corpus[i].clone() } else { sim::gen_sim_case(&prop, &mut r) };
                let run = sim::run_sim(&c);
                let toks = sim::enc_sim_case(&c, &run);
                dist_mach[(c.mc.len() + c.ms.len()).min(4)] += 1;
                let is_role = |m: &maybenot::Machine| m.states.len() == 2 && m.allowed_padding_packets == u64::MAX;
                dist_flags[0] += (c.mc.iter().any(is_role) || c.ms.iter().any(is_role)) as usize;
                dist_flags[1] += c.via_parse as usize;
                dist_flags[2] += c.cont as usize;
                dist_flags[3] += c.pps.is_some() as usize;
                dist_flags[4] += (c.only_client || c.only_network) as usize;
                dist_flags[5] += (c.max_trace > 0) as usize;
                dist_len[if c.trace.len() <= 1 { 0 } else if c.trace.len() <= 5 { 1 } else if c.trace.len() <= 20 { 2 } else { 3 }] += 1;
                if let Ok(tr) = &run.out {
                    for e in tr {
                        dist_kinds[e.kind as usize] += 1;
                    }
                }
                writeln!(cases, "{}", enc::hex_line(None, &toks)).unwrap();
                for l in sim::out_lines(&run) {
                    writeln!(implo, "{}", enc::hex_line(Some(i), &l)).unwrap();
                }
                match &run.out {
                    Err(m) => {
                        panics += 1;
                        writeln!(meta, "panic case={} msg={}", i, m).unwrap();
                    }
                    Ok(tr) => {
                        events += tr.len();
                        if tr.iter().any(|e| e.pad || e.kind >= 6) || (prop == "C14" && !tr.is_empty()) {
                            nontrivial.insert(toks.clone());
                        }
                    }
                }
                let fs = simprops::monitor(&prop, &c);
                if let Some(f) = fs.iter().find(|f| f.known.is_none()) {
                    viol += 1;
                    writeln!(meta, "violation case={} {}", i, f.msg).unwrap();
                } else if let Some(f) = fs.first() {
                    let id = f.known.unwrap();
                    let n = known_seen.entry(id).or_insert(0usize);
                    *n += 1;
                    if *n == 1 && id != "undecided" {
                        writeln!(meta, "known {} case={} {}", id, i, f.msg).unwrap();
                    }
                }
                if only.is_some() {
                    for l in simprops::describe(&c) {
                        writeln!(meta, "event {}", l).unwrap();
                    }
                }
                if only.is_some() || (i < 2) {
                    writeln!(meta, "{} case={} {:?} trace={:?}", if only.is_some() { "replay" } else { "sample" }, i,
                        (c.mc.iter().map(|m| m.serialize()).collect::<Vec<_>>(), c.ms.iter().map(|m| m.serialize()).collect::<Vec<_>>(), c.fr, c.delay_ns, c.pps, c.via_parse, c.max_trace, c.max_iter, c.cont, c.only_client, c.only_network, c.seed), c.trace).unwrap();
                }
            }
            let known_s: Vec<String> = known_seen.iter().map(|(k, v)| format!("{}:{}", k, v)).collect();
            writeln!(
                meta,
                "summary cases={} nontrivial={} violations={} panics={} events={} known=[{}] event_kinds_recvN_recvP_recvT_sentN_sentP_sentT_bbegin_bend_tbegin_tend={:?} cases_by_machines_0_1_2_3_4plus={:?} role_machine_cases={} parsed_queue={} continue_after_normal={} pps_limit={} filtered_output={} bounded_trace={} trace_len_1_5_20_40={:?}",
                n, nontrivial.len(), viol, panics, events, known_s.join(","), dist_kinds, dist_mach, dist_flags[0], dist_flags[1], dist_flags[2], dist_flags[3], dist_flags[4], dist_flags[5], dist_len
            )
            .unwrap();
        }
        Some("c12") => {
            let a = &args[2..];
            c12::run(
                arg(a, "--seed").map(|s| s.parse().unwrap()).unwrap_or(1),
                arg(a, "--n").map(|s| s.parse().unwrap()).unwrap_or(100),
                &arg(a, "--out").expect("--out"),
                arg(a, "--only").map(|s| s.parse().unwrap()),
            )
        }
        Some("c13") => {
            let a = &args[2..];
            c13::run(
                arg(a, "--seed").map(|s| s.parse().unwrap()).unwrap_or(1),
                arg(a, "--n").map(|s| s.parse().unwrap()).unwrap_or(100),
                &arg(a, "--out").expect("--out"),
                arg(a, "--only").map(|s| s.parse().unwrap()),
            )
        }
        Some("c13worker") => c13::worker(&args[2..]),
        Some("c19long") => {
            let a = &args[2..];
            simlong::run(
                &arg(a, "--prop").unwrap_or_else(|| "C19".to_string()),
                arg(a, "--seed").map(|s| s.parse().unwrap()).unwrap_or(1),
                arg(a, "--n").map(|s| s.parse().unwrap()).unwrap_or(4),
                &arg(a, "--out").expect("--out"),
            )
        }
        Some("c01std") => {
            let a = &args[2..];
            stdprobe::run(
                arg(a, "--seed").map(|s| s.parse().unwrap()).unwrap_or(1),
                arg(a, "--n").map(|s| s.parse().unwrap()).unwrap_or(100),
                &arg(a, "--out").expect("--out"),
            )
        }
        Some("binom") => {
            use maybenot::dist::{Dist, DistType};
            for trials in 0..=20u64 {
                for p in [0.0, 0.1, 0.5, 1.0] {
                    for (si, script) in [vec![], vec![0u64; 8], vec![u64::MAX; 8], vec![0, u64::MAX, 0, u64::MAX, 0, u64::MAX]].iter().enumerate() {
                        let d = Dist::new(DistType::Binomial { trials, probability: p }, 0.0, 0.0);
                        let r = distprobe::probe(d, script.clone(), 5, 50, 500);
                        if !matches!(r, distprobe::Probe::Values(_)) {
                            println!("trials={} p={} script={} -> {:?}", trials, p, si, r);
                        }
                    }
                }
            }
        }
        _ => {
            eprintln!("usage: vharness fw --prop Cxx --seed S --n N --out DIR");
            std::process::exit(2);
        }
    }
}
