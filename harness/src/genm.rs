//! Generators of machines and call histories. Every choice is drawn from one
//! SplitMix64 state so that a (property, seed, index) triple replays exactly.
use crate::rng::SplitMix64;
use enum_map::{enum_map, EnumMap};
use maybenot::action::{Action, Timer};
use maybenot::constants::{STATE_END, STATE_SIGNAL};
use maybenot::counter::{Counter, Operation};
use maybenot::dist::{Dist, DistType};
use maybenot::event::Event;
use maybenot::state::{State, Trans};
use maybenot::{Machine, MachineId, TriggerEvent};

#[derive(Clone, Copy, Debug, PartialEq)]
pub enum DistMode {
    /// Uniform{v,v}: no randomness
    Const,
    /// constants, uniform ranges and all other families with moderate parameters
    Mixed,
    /// heavy tails and huge values (exercise the 24h clamp and the casts)
    Heavy,
}

#[derive(Clone, Copy, Debug, PartialEq)]
pub enum ProbMode {
    One,
    Dyadic,
    Any,
}

#[derive(Clone, Debug)]
pub struct MProfile {
    pub max_states: u64,
    pub act_none: u64,
    pub act_cancel: u64,
    pub act_pad: u64,
    pub act_block: u64,
    pub act_timer: u64,
    pub counters: u64, // chance in 100 that a state has a counter (each of A, B)
    pub limits: u64,   // chance in 100 that a limitable action has a limit
    pub signals: u64,  // chance in 100 that a vector may target SIGNAL
    pub ends: u64,     // chance in 100 that a vector may target END
    pub trans_density: u64, // chance in 100 that an event has a transition vector
    pub dist: DistMode,
    pub prob: ProbMode,
    pub budgets: bool,
    pub fracs: bool,
    pub big_counters: bool,
    /// allow the non-Uniform families (their samplers are third-party code
    /// that may not terminate under scripted extreme RNG words, see C13)
    pub families: bool,
}

impl MProfile {
    pub fn mixed() -> Self {
        MProfile {
            max_states: 4,
            act_none: 2,
            act_cancel: 1,
            act_pad: 3,
            act_block: 3,
            act_timer: 2,
            counters: 30,
            limits: 40,
            signals: 15,
            ends: 10,
            trans_density: 40,
            dist: DistMode::Mixed,
            prob: ProbMode::Any,
            budgets: true,
            fracs: true,
            big_counters: false,
            families: true,
        }
    }
}

pub const FRACS: [f64; 8] = [0.0, 0.0, 1e-9, 1.0 / 3.0, 0.5, 0.75, 0.999_999_999, 1.0];

pub fn const_dist(v: f64) -> Dist {
    Dist::new(DistType::Uniform { low: v, high: v }, 0.0, 0.0)
}

fn small_value(r: &mut SplitMix64) -> f64 {
    if r.chance(1, 8) {
        // where a rounding rule shows: the neighbours of one half (0.5 - ulp rounds to 0 but + 0.5 gives 1.0),
        // halves (away from zero, not to even), integers above 2^52 (x + 0.5 is not exact), almost-integers
        return *r.pick(&[
            0.49999999999999994,
            0.5000000000000001,
            0.9999999999999999,
            1.4999999999999998,
            3.5,
            4.5,
            4503599627370497.0,
            4503599627370495.5,
            9007199254740991.0,
            5e-324,
        ]);
    }
    *r.pick(&[0.0, 0.0, 1.0, 1.0, 2.0, 3.0, 5.0, 10.0, 100.0, 1000.0, 1e6, 0.4, 0.5, 1.5, 2.5])
}

pub fn gen_dist(r: &mut SplitMix64, mode: DistMode, families: bool) -> Dist {
    match mode {
        DistMode::Const => const_dist(small_value(r)),
        DistMode::Mixed => {
            let k = r.below(100);
            let mut d = if k < 55 {
                const_dist(small_value(r))
            } else if k < 70 || !families {
                let lo = small_value(r);
                let hi = lo + *r.pick(&[0.5, 1.0, 3.0, 10.0, 1000.0]);
                Dist::new(DistType::Uniform { low: lo, high: hi }, 0.0, 0.0)
            } else {
                let p1 = *r.pick(&[0.5, 1.0, 2.0, 5.0, 20.0]);
                let p2 = *r.pick(&[0.5, 1.0, 2.0, 3.0]);
                let t = match r.below(10) {
                    0 => DistType::Normal { mean: p1, stdev: p2 },
                    1 => DistType::SkewNormal {
                        location: p1,
                        scale: p2,
                        shape: *r.pick(&[-2.0, 0.0, 3.0]),
                    },
                    2 => DistType::LogNormal { mu: p2, sigma: 0.5 },
                    3 => DistType::Binomial {
                        trials: r.range(0, 20),
                        probability: *r.pick(&[0.0, 0.1, 0.5, 1.0]),
                    },
                    4 => DistType::Geometric {
                        probability: *r.pick(&[0.1, 0.5, 1.0]),
                    },
                    5 => DistType::Pareto { scale: p1, shape: p2 },
                    6 => DistType::Poisson { lambda: p1 },
                    7 => DistType::Weibull { scale: p1, shape: p2 },
                    8 => DistType::Gamma { scale: p1, shape: p2 },
                    _ => DistType::Beta { alpha: p1, beta: p2 },
                };
                Dist::new(t, 0.0, 0.0)
            };
            if r.chance(1, 5) {
                d.start = *r.pick(&[0.5, 1.0, 10.0, -1.0, -0.0]);
            }
            if r.chance(1, 5) {
                d.max = *r.pick(&[0.5, 1.0, 2.0, 7.0, 100.0, -1.0]);
            }
            d
        }
        DistMode::Heavy => {
            let k = r.below(100);
            let mut d = if k < 20 {
                const_dist(*r.pick(&[0.0, 8.64e10, 8.64e10 + 1.0, 1e15, 1.8e19, 1e300, f64::MAX]))
            } else if k < 40 {
                Dist::new(
                    DistType::Pareto {
                        scale: *r.pick(&[1.0, 1e6, 1e12]),
                        shape: *r.pick(&[0.01, 0.1, 1.0]),
                    },
                    0.0,
                    0.0,
                )
            } else if k < 60 {
                Dist::new(
                    DistType::LogNormal {
                        mu: *r.pick(&[1.0, 20.0, 40.0, 700.0]),
                        sigma: *r.pick(&[0.5, 5.0, 50.0]),
                    },
                    0.0,
                    0.0,
                )
            } else if k < 80 {
                Dist::new(
                    DistType::Uniform {
                        low: *r.pick(&[0.0, -1e300, 1e10]),
                        high: *r.pick(&[1e11, 1e20, 1e300]),
                    },
                    0.0,
                    0.0,
                )
            } else {
                Dist::new(
                    DistType::Normal {
                        mean: *r.pick(&[0.0, 1e11, -1e11]),
                        stdev: *r.pick(&[1.0, 1e11, 1e300]),
                    },
                    0.0,
                    0.0,
                )
            };
            if r.chance(1, 4) {
                d.start = *r.pick(&[f64::NAN, f64::INFINITY, f64::NEG_INFINITY, 1e300, -1e300, 1.0]);
            }
            if r.chance(1, 4) {
                d.max = *r.pick(&[f64::NAN, f64::INFINITY, 1e300, 8.64e10, 1.0, f64::NEG_INFINITY]);
            }
            d
        }
    }
}

pub fn gen_limit_dist(r: &mut SplitMix64, mode: DistMode) -> Dist {
    // limits are ROUNDED samples: a share of them sits where rounding rules differ (see small_value), also
    // reached through the start offset and the max clamp
    if r.chance(1, 10) {
        let v = *r.pick(&[0.49999999999999994, 0.5000000000000001, 1.4999999999999998, 2.5, 3.5, 0.9999999999999999, 4503599627370497.0]);
        return match r.below(3) {
            0 => const_dist(v),
            1 => Dist::new(DistType::Uniform { low: 0.0, high: 0.0 }, v, 0.0),
            _ => Dist::new(DistType::Uniform { low: 7.0, high: 7.0 }, 0.0, v),
        };
    }
    match mode {
        DistMode::Const => const_dist(r.range(0, 4) as f64),
        _ => {
            if r.chance(2, 3) {
                const_dist(*r.pick(&[0.0, 1.0, 1.0, 2.0, 3.0, 0.4, 0.5, 1.5, 2.5]))
            } else {
                let lo = r.range(0, 2) as f64;
                Dist::new(
                    DistType::Uniform {
                        low: lo,
                        high: lo + r.range(1, 4) as f64,
                    },
                    0.0,
                    0.0,
                )
            }
        }
    }
}

pub fn gen_action(r: &mut SplitMix64, p: &MProfile) -> Option<Action> {
    let total = p.act_none + p.act_cancel + p.act_pad + p.act_block + p.act_timer;
    let mut k = r.below(total);
    let limit = |r: &mut SplitMix64| {
        if r.below(100) < p.limits {
            Some(gen_limit_dist(r, p.dist))
        } else {
            None
        }
    };
    if k < p.act_none {
        return None;
    }
    k -= p.act_none;
    if k < p.act_cancel {
        return Some(Action::Cancel {
            timer: *r.pick(&[Timer::Action, Timer::Internal, Timer::All]),
        });
    }
    k -= p.act_cancel;
    if k < p.act_pad {
        return Some(Action::SendPadding {
            bypass: r.chance(1, 2),
            replace: r.chance(1, 2),
            timeout: gen_dist(r, p.dist, p.families),
            limit: limit(r),
        });
    }
    k -= p.act_pad;
    if k < p.act_block {
        return Some(Action::BlockOutgoing {
            bypass: r.chance(1, 2),
            replace: r.chance(1, 2),
            timeout: gen_dist(r, p.dist, p.families),
            duration: gen_dist(r, p.dist, p.families),
            limit: limit(r),
        });
    }
    Some(Action::UpdateTimer {
        replace: r.chance(1, 2),
        duration: gen_dist(r, p.dist, p.families),
        limit: limit(r),
    })
}

pub fn gen_counter(r: &mut SplitMix64, p: &MProfile) -> Option<Counter> {
    if r.below(100) >= p.counters {
        return None;
    }
    let op = *r.pick(&[Operation::Increment, Operation::Decrement, Operation::Set]);
    let k = r.below(10);
    Some(if k < 4 {
        Counter::new(op)
    } else if k < 8 {
        let d = if p.big_counters && r.chance(1, 2) {
            const_dist(*r.pick(&[
                1.8446744073709552e19,
                1.8446744073709550e19,
                9.3e18,
                1e300,
                3.0,
            ]))
        } else if p.dist == DistMode::Const {
            const_dist(r.range(0, 3) as f64)
        } else {
            gen_dist(r, DistMode::Mixed, p.families)
        };
        Counter::new_dist(op, d)
    } else if k < 9 || !r.chance(1, 2) {
        Counter::new_copy(op)
    } else {
        // no constructor builds it, but the fields are public and validation accepts it: a copying counter
        // that also carries a distribution (the copy takes precedence, nothing is sampled)
        let mut c = Counter::new_copy(op);
        c.dist = Some(if p.dist == DistMode::Const { const_dist(r.range(0, 3) as f64) } else { gen_dist(r, DistMode::Mixed, p.families) });
        c
    })
}

fn gen_probs(r: &mut SplitMix64, n: usize, mode: ProbMode) -> Vec<f32> {
    match mode {
        ProbMode::One => {
            let mut v = vec![1.0f32];
            v.truncate(n.min(1));
            v
        }
        ProbMode::Dyadic => {
            // quarters summing to at most 1
            let mut left = 4u64;
            let mut v = vec![];
            for _ in 0..n {
                if left == 0 {
                    break;
                }
                let q = r.range(1, left);
                left -= q;
                v.push(q as f32 / 4.0);
            }
            v
        }
        ProbMode::Any => {
            if r.chance(1, 3) {
                return gen_probs(r, n, ProbMode::Dyadic);
            }
            // random weights scaled to a total in (0,1]
            let total = *r.pick(&[1.0f64, 1.0, 0.9, 0.5, 0.1, 1e-3]);
            let w: Vec<f64> = (0..n).map(|_| (r.below(1000) + 1) as f64).collect();
            let s: f64 = w.iter().sum();
            let mut v: Vec<f32> = w.iter().map(|x| (x / s * total) as f32).collect();
            // rounding may push the f32 sum above 1: shave the last element
            loop {
                let mut sum = 0.0f32;
                for x in &v {
                    sum += x;
                }
                if sum <= 1.0 {
                    break;
                }
                let l = v.len() - 1;
                v[l] = f32::from_bits(v[l].to_bits() - 1);
                if v[l] <= 0.0 {
                    v.pop();
                }
            }
            v
        }
    }
}

pub fn gen_state(r: &mut SplitMix64, p: &MProfile, nstates: usize) -> State {
    let mut t: EnumMap<Event, Vec<Trans>> = enum_map! { _ => vec![] };
    for e in Event::iter() {
        if r.below(100) >= p.trans_density {
            continue;
        }
        let mut targets: Vec<usize> = (0..nstates).collect();
        if r.below(100) < p.signals {
            targets.push(STATE_SIGNAL);
        }
        if r.below(100) < p.ends {
            targets.push(STATE_END);
        }
        // shuffle, take 1..3
        for i in (1..targets.len()).rev() {
            let j = r.below(i as u64 + 1) as usize;
            targets.swap(i, j);
        }
        let n = (r.range(1, 3) as usize).min(targets.len());
        let probs = gen_probs(r, n, p.prob);
        t[*e] = targets
            .iter()
            .zip(probs.iter())
            .map(|(s, p)| Trans(*s, *p))
            .collect();
    }
    let mut s = State::new(t);
    s.action = gen_action(r, p);
    s.counter = (gen_counter(r, p), gen_counter(r, p));
    s
}

pub fn gen_machine(r: &mut SplitMix64, p: &MProfile) -> Machine {
    loop {
        let n = r.range(1, p.max_states) as usize;
        let states: Vec<State> = (0..n).map(|_| gen_state(r, p, n)).collect();
        let (ap, ab) = if p.budgets {
            (
                *r.pick(&[0, 0, 1, 2, 3, u64::MAX]),
                *r.pick(&[0, 0, 1, 1000, 1_000_000, u64::MAX]),
            )
        } else {
            (0, 0)
        };
        let (pf, bf) = if p.fracs {
            (*r.pick(&FRACS), *r.pick(&FRACS))
        } else {
            (0.0, 0.0)
        };
        if let Ok(m) = Machine::new(ap, pf, ab, bf, states) {
            return m;
        }
    }
}

#[derive(Clone, Debug)]
pub struct HProfile {
    pub max_calls: u64,
    pub min_events: u64,
    pub max_events: u64,
    /// relative weights of the 10 trigger-event kinds
    pub weights: [u64; 10],
    pub foreign_ids: bool,
    pub backwards: bool,
    pub huge_times: bool,
}

impl HProfile {
    pub fn mixed() -> Self {
        HProfile {
            max_calls: 8,
            min_events: 0,
            max_events: 4,
            weights: [2, 1, 2, 4, 4, 2, 3, 3, 2, 2],
            foreign_ids: true,
            backwards: true,
            huge_times: true,
        }
    }
}

pub fn gen_id(r: &mut SplitMix64, n: usize, foreign: bool) -> usize {
    if n == 0 || (foreign && r.chance(1, 6)) {
        *r.pick(&[n, n + 1, usize::MAX, u32::MAX as usize, 1 << 40])
    } else {
        r.below(n as u64) as usize
    }
}

pub fn gen_event(r: &mut SplitMix64, n: usize, h: &HProfile) -> TriggerEvent {
    let total: u64 = h.weights.iter().sum();
    let mut k = r.below(total);
    let mut kind = 0;
    for (i, w) in h.weights.iter().enumerate() {
        if k < *w {
            kind = i;
            break;
        }
        k -= w;
    }
    let id = MachineId::from_raw(gen_id(r, n, h.foreign_ids));
    match kind {
        0 => TriggerEvent::NormalRecv,
        1 => TriggerEvent::PaddingRecv,
        2 => TriggerEvent::TunnelRecv,
        3 => TriggerEvent::NormalSent,
        4 => TriggerEvent::PaddingSent { machine: id },
        5 => TriggerEvent::TunnelSent,
        6 => TriggerEvent::BlockingBegin { machine: id },
        7 => TriggerEvent::BlockingEnd,
        8 => TriggerEvent::TimerBegin { machine: id },
        _ => TriggerEvent::TimerEnd { machine: id },
    }
}

pub fn gen_history(r: &mut SplitMix64, n: usize, h: &HProfile) -> (u64, Vec<(u64, Vec<TriggerEvent>)>) {
    let t0 = if h.huge_times && r.chance(1, 10) {
        *r.pick(&[u64::MAX - 10, 1 << 63, (1 << 53) + 1])
    } else {
        *r.pick(&[0, 1, 1000, 1_000_000, 123_456_789])
    };
    let mut t = t0;
    let ncalls = r.range(1, h.max_calls);
    let mut calls = vec![];
    for _ in 0..ncalls {
        let k = r.below(20);
        if k < 3 {
            // clock stands still
        } else if k < 5 && h.backwards {
            t = t.saturating_sub(*r.pick(&[1, 10, 1000, u64::MAX]));
        } else if k == 5 && h.huge_times {
            t = t.saturating_add(*r.pick(&[1 << 40, 1 << 62, u64::MAX]));
        } else {
            t = t.saturating_add(*r.pick(&[1, 1, 2, 3, 10, 100, 1000, 1_000_000]));
        }
        let ne = r.range(h.min_events, h.max_events);
        let evs = (0..ne).map(|_| gen_event(r, n, h)).collect();
        calls.push((t, evs));
    }
    (t0, calls)
}

/// Role machines for the simulator properties: two states, state 1 carries
/// one action of the given kind with constant timings (microseconds) drawn
/// from small sets so that timers of different machines collide and overlap.
#[derive(Clone, Copy, Debug, PartialEq)]
pub enum Role {
    Blocker,
    Padder,
    Timer,
    Canceller,
}

pub fn gen_role_machine(r: &mut SplitMix64, role: Role, bypass: Option<bool>) -> Machine {
    gen_role_machine_rp(r, role, bypass, None)
}

pub fn gen_role_machine_rp(r: &mut SplitMix64, role: Role, bypass: Option<bool>, replace: Option<bool>) -> Machine {
    let evs = [
        Event::NormalSent,
        Event::TunnelSent,
        Event::TunnelRecv,
        Event::NormalRecv,
        Event::PaddingSent,
        Event::PaddingRecv,
        Event::BlockingBegin,
        Event::BlockingEnd,
        Event::TimerBegin,
        Event::TimerEnd,
    ];
    let tmo = const_dist(*r.pick(&[0.0, 0.0, 1.0, 2.0, 5.0, 10.0, 50.0, 100.0, 1000.0]));
    let dur = const_dist(*r.pick(&[0.0, 1.0, 3.0, 10.0, 100.0, 1000.0, 100000.0]));
    let by = bypass.unwrap_or_else(|| r.chance(1, 2));
    let rp = replace.unwrap_or_else(|| r.chance(1, 2));
    let limit = if r.chance(1, 3) { Some(const_dist(*r.pick(&[1.0, 2.0, 5.0]))) } else { None };
    let action = match role {
        Role::Blocker => Action::BlockOutgoing { bypass: by, replace: rp, timeout: tmo, duration: dur, limit },
        Role::Padder => Action::SendPadding { bypass: by, replace: rp, timeout: tmo, limit },
        Role::Timer => Action::UpdateTimer { replace: rp, duration: dur, limit },
        Role::Canceller => Action::Cancel { timer: *r.pick(&[Timer::Action, Timer::Internal, Timer::All]) },
    };
    let mut t0: EnumMap<Event, Vec<Trans>> = enum_map! { _ => vec![] };
    let mut t1: EnumMap<Event, Vec<Trans>> = enum_map! { _ => vec![] };
    let k0 = r.range(1, 3);
    for _ in 0..k0 {
        t0[*r.pick(&evs)] = vec![Trans(1, 1.0)];
    }
    let k1 = r.range(0, 3);
    for _ in 0..k1 {
        t1[*r.pick(&evs)] = vec![Trans(r.below(2) as usize, 1.0)];
    }
    // repeating roles: a padder that re-arms on its own PaddingSent, a blocker on BlockingEnd, a timer on TimerEnd
    if r.chance(1, 2) {
        match role {
            Role::Padder => t1[Event::PaddingSent] = vec![Trans(1, 1.0)],
            Role::Blocker => t1[Event::BlockingEnd] = vec![Trans(1, 1.0)],
            Role::Timer => t1[Event::TimerEnd] = vec![Trans(1, 1.0)],
            Role::Canceller => {}
        }
    }
    let s0 = State::new(t0);
    let mut s1 = State::new(t1);
    s1.action = Some(action);
    Machine::new(u64::MAX, 0.0, u64::MAX, 0.0, vec![s0, s1]).unwrap()
}
