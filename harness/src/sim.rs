//! Simulator cases (C14-C19): the real sim_advanced with the verif recorder
//! armed (both frameworks' draws in call order) against the model.
use crate::enc::*;
use crate::genm::*;
use crate::rng::SplitMix64;
use maybenot::verif;
use maybenot::{Machine, TriggerEvent};
use maybenot_simulator::network::Network;
use maybenot_simulator::queue::SimQueue;
use maybenot_simulator::{parse_trace, sim_advanced, SimEvent, SimulatorArgs};
use std::panic::{catch_unwind, AssertUnwindSafe};
use std::time::{Duration, Instant};

pub const BIAS: i128 = 1_000_000_000_000_000;

#[derive(Clone, Debug)]
pub struct SimCase {
    pub mc: Vec<Machine>,
    pub ms: Vec<Machine>,
    pub fr: [f64; 4], // pad_c, blk_c, pad_s, blk_s
    pub delay_ns: u64,
    pub pps: Option<usize>,
    pub via_parse: bool,
    /// (time in ns relative to the trace start, is_client) in trace order
    pub trace: Vec<(u64, bool)>,
    pub max_trace: usize,
    pub max_iter: usize,
    pub cont: bool,
    pub only_client: bool,
    pub only_network: bool,
    pub seed: u64,
}

#[derive(Clone, Debug, PartialEq)]
pub struct OutEv {
    pub ev: TriggerEvent,
    pub t: i128, // ns relative to the trace start
    pub client: bool,
    pub kind: u64,
    pub machine: u64,
    pub pad: bool,
    pub bypass: bool,
    pub replace: bool,
}

pub struct SimRun {
    pub out: Result<Vec<OutEv>, String>,
    pub tape: Vec<u64>,
    pub log: Vec<(u64, u64, u64)>,
    pub queue_pps: Option<usize>,
    /// queue contents as pushed: (relative time, client)
    pub queued: Vec<(i128, bool)>,
}

fn rel(t: Instant, base: Instant) -> i128 {
    if t >= base {
        (t - base).as_nanos() as i128
    } else {
        -((base - t).as_nanos() as i128)
    }
}

pub fn trace_string(c: &SimCase) -> String {
    c.trace.iter().map(|(t, cl)| format!("{},{}\n", t, if *cl { "s" } else { "r" })).collect()
}

fn build_queue(c: &SimCase, network: Network) -> (SimQueue, Instant, Option<usize>, Vec<(i128, bool)>) {
    // relative times of the queued base events
    let queued: Vec<(i128, bool)> = c
        .trace
        .iter()
        .map(|(t, cl)| (if *cl { *t as i128 } else { *t as i128 - c.delay_ns as i128 }, *cl))
        .collect();
    let minrel = queued.iter().map(|x| x.0).min().unwrap();
    if c.via_parse {
        let sq = parse_trace(&trace_string(c), network);
        let first = sq.get_first_time().unwrap();
        let base = if minrel >= 0 { first - Duration::from_nanos(minrel as u64) } else { first + Duration::from_nanos((-minrel) as u64) };
        let p = sq.verif_max_pps();
        (sq, base, p, queued)
    } else {
        let base = Instant::now() + Duration::from_secs(3600);
        let mut sq = SimQueue::new();
        for (t, cl) in &queued {
            let at = if *t >= 0 { base + Duration::from_nanos(*t as u64) } else { base - Duration::from_nanos((-*t) as u64) };
            sq.push(TriggerEvent::NormalSent, *cl, false, at, Duration::from_nanos(0));
        }
        (sq, base, None, queued)
    }
}

pub fn run_sim(c: &SimCase) -> SimRun {
    let network = Network::new(Duration::from_nanos(c.delay_ns), c.pps);
    let mut args = SimulatorArgs::new(network, c.max_trace, c.only_network);
    args.max_sim_iterations = c.max_iter;
    args.continue_after_all_normal_packets_processed = c.cont;
    args.only_client_events = c.only_client;
    args.max_padding_frac_client = c.fr[0];
    args.max_blocking_frac_client = c.fr[1];
    args.max_padding_frac_server = c.fr[2];
    args.max_blocking_frac_server = c.fr[3];
    args.insecure_rng_seed = Some(c.seed);
    let built = catch_unwind(AssertUnwindSafe(|| build_queue(c, network)));
    let (mut sq, base, qpps, queued) = match built {
        Ok(x) => x,
        Err(e) => return SimRun { out: Err(crate::fw::panic_msg(e)), tape: vec![], log: vec![], queue_pps: None, queued: vec![] },
    };
    verif::arm(0);
    let res = catch_unwind(AssertUnwindSafe(|| sim_advanced(&c.mc, &c.ms, &mut sq, &args)));
    let (tp, lg, _) = verif::take();
    verif::disarm();
    let tape: Vec<u64> = tp
        .iter()
        .map(|x| if x.0 == verif::TAPE_U { ((f32::from_bits(x.1 as u32) * 8388608.0) as u64).min((1 << 23) - 1) } else { x.1 })
        .collect();
    let out = match res {
        Err(e) => Err(crate::fw::panic_msg(e)),
        Ok(tr) => Ok(tr.iter().map(|e| out_ev(e, base)).collect()),
    };
    SimRun { out, tape, log: lg, queue_pps: qpps, queued }
}

/// implementation-only probe for C15's ordering clause: the same case with integration delays configured on
/// both sides (the model does not cover them), every output filter; Err = the returned trace is not ordered by time
pub fn ordered_with_integration(c: &SimCase) -> Result<(), String> {
    use maybenot_simulator::integration::{BinDist, Integration};
    let mk = |a: &str, r: &str, t: &str| -> Option<Integration> {
        Some(Integration { action_delay: BinDist::new(a).ok()?, reporting_delay: BinDist::new(r).ok()?, trigger_delay: BinDist::new(t).ok()? })
    };
    let us = 1.0 + (c.seed % 7) as f64 * 1500.0;
    let a = format!("{{\"({:.1}, {:.1})\": 1.0}}", us, us * 2.0);
    let r = format!("{{\"({:.1}, {:.1})\": 1.0}}", us * 3.0, us * 5.0);
    let t = format!("{{\"({:.1}, {:.1})\": 1.0}}", us / 2.0, us);
    let (ci, si) = match (mk(&a, &r, &t), mk(&r, &t, &a)) {
        (Some(x), Some(y)) => (x, y),
        _ => return Ok(()),
    };
    let network = Network::new(Duration::from_nanos(c.delay_ns), c.pps);
    for (oc, on) in [(false, false), (true, false), (false, true), (true, true)] {
        let mut args = SimulatorArgs::new(network, c.max_trace, on);
        args.max_sim_iterations = if c.max_iter == 0 { 20000 } else { c.max_iter };
        args.continue_after_all_normal_packets_processed = c.cont;
        args.only_client_events = oc;
        args.max_padding_frac_client = c.fr[0];
        args.max_blocking_frac_client = c.fr[1];
        args.max_padding_frac_server = c.fr[2];
        args.max_blocking_frac_server = c.fr[3];
        args.insecure_rng_seed = Some(c.seed);
        let res = catch_unwind(AssertUnwindSafe(|| {
            let mut sq = maybenot_simulator::parse_trace_advanced(&trace_string(c), network, Some(&ci), Some(&si));
            sim_advanced(&c.mc, &c.ms, &mut sq, &args)
        }));
        if let Ok(tr) = res {
            if let Some(i) = (1..tr.len()).find(|i| tr[*i - 1].time > tr[*i].time) {
                return Err(format!(
                    "with integration delays (action {}, reporting {}) and only_client_events={} only_network_activity={} the returned trace is not ordered by time: event #{} ({:?}) is {:?} after event #{} ({:?})",
                    a, r, oc, on, i - 1, tr[i - 1].event, tr[i - 1].time - tr[i].time, i, tr[i].event
                ));
            }
        }
    }
    Ok(())
}

/// the plain entry point sim() (no machines expected: thread RNG)
pub fn run_sim_plain(c: &SimCase) -> SimRun {
    let network = Network::new(Duration::from_nanos(c.delay_ns), None);
    let (mut sq, base, qpps, queued) = build_queue(c, network);
    let res = catch_unwind(AssertUnwindSafe(|| maybenot_simulator::sim(&c.mc, &c.ms, &mut sq, Duration::from_nanos(c.delay_ns), c.max_trace, c.only_network)));
    let out = match res {
        Err(e) => Err(crate::fw::panic_msg(e)),
        Ok(tr) => Ok(tr.iter().map(|e| out_ev(e, base)).collect()),
    };
    SimRun { out, tape: vec![], log: vec![], queue_pps: qpps, queued }
}

pub fn out_ev(e: &SimEvent, base: Instant) -> OutEv {
    let mut t = vec![];
    enc_event(&e.event, &mut t);
    let (bypass, replace) = e.verif_flags();
    OutEv { ev: e.event.clone(), t: rel(e.time, base), client: e.client, kind: t[0], machine: t[1], pad: e.contains_padding, bypass, replace }
}

pub fn enc_sim_case(c: &SimCase, run: &SimRun) -> Toks {
    let mut o: Toks = vec![10];
    o.push(c.fr[0].to_bits());
    o.push(c.fr[1].to_bits());
    o.push(c.mc.len() as u64);
    for m in &c.mc {
        enc_machine(m, &mut o);
    }
    o.push(c.fr[2].to_bits());
    o.push(c.fr[3].to_bits());
    o.push(c.ms.len() as u64);
    for m in &c.ms {
        enc_machine(m, &mut o);
    }
    o.push(c.delay_ns);
    match c.pps {
        None => o.push(0),
        Some(p) => {
            o.push(1);
            o.push(p as u64)
        }
    }
    o.push(c.via_parse as u64);
    o.extend_from_slice(&[c.max_trace as u64, c.max_iter as u64, c.cont as u64, c.only_client as u64, c.only_network as u64]);
    // the trace lines in file order: (time, is_send)
    o.push(c.trace.len() as u64);
    for (t, cl) in &c.trace {
        o.push((*t as i128 + BIAS) as u64);
        o.push(*cl as u64);
    }
    o.push(run.tape.len() as u64);
    o.extend_from_slice(&run.tape);
    o
}

pub fn out_lines(run: &SimRun) -> Vec<Toks> {
    let mut hdr: Vec<Toks> = vec![];
    if let Some(p) = run.queue_pps {
        hdr.push(vec![2, p as u64]);
    }
    hdr.extend(out_body(run));
    hdr
}

fn out_body(run: &SimRun) -> Vec<Toks> {
    match &run.out {
        Err(m) => vec![vec![1, if m.contains("BUG") { 10 } else if m.contains("divide by zero") { 8 } else { crate::fw::panic_kind(m) }]],
        Ok(tr) => {
            let mut l: Vec<Toks> = vec![vec![0, tr.len() as u64]];
            for e in tr {
                l.push(vec![(e.t + BIAS) as u64, e.client as u64, e.kind, e.machine, e.pad as u64, e.bypass as u64, e.replace as u64]);
            }
            l
        }
    }
}

pub fn gen_sim_case(prop: &str, r: &mut SplitMix64) -> SimCase {
    let mut mp = MProfile::mixed();
    mp.max_states = 3;
    mp.trans_density = 45;
    mp.dist = if r.chance(2, 3) { DistMode::Const } else { DistMode::Mixed };
    mp.budgets = true;
    let no_machines = prop == "C14";
    let nc = if no_machines { 0 } else { r.range(0, 2) as usize };
    let ns = if no_machines { 0 } else { r.range(0, 2) as usize };
    let mut mc: Vec<Machine> = (0..nc).map(|_| gen_machine(r, &mp)).collect();
    let mut ms: Vec<Machine> = (0..ns).map(|_| gen_machine(r, &mp)).collect();
    // directed part: role machines whose timers collide and overlap (one side, sometimes both)
    let mut directed = false;
    if !no_machines && r.chance(1, 2) {
        directed = true;
        let roles: &[(Role, Option<bool>, Option<bool>)] = match prop {
            "C15" => &[(Role::Blocker, None, None), (Role::Padder, Some(true), Some(true)), (Role::Padder, None, None), (Role::Blocker, None, None)],
            "C16" => &[(Role::Blocker, Some(false), None), (Role::Blocker, Some(true), None), (Role::Padder, Some(true), None), (Role::Padder, None, None)],
            "C17" => &[(Role::Blocker, None, None), (Role::Padder, None, None), (Role::Padder, None, None), (Role::Canceller, None, None)],
            "C18" => &[(Role::Timer, None, None), (Role::Timer, None, None), (Role::Canceller, None, None), (Role::Padder, None, None)],
            _ => &[(Role::Blocker, None, None), (Role::Padder, None, None), (Role::Timer, None, None), (Role::Canceller, None, None)],
        };
        let which = r.below(3); // 0 client, 1 server, 2 both
        for (k, side) in [&mut mc, &mut ms].into_iter().enumerate() {
            if which == 2 || which == k as u64 {
                side.clear();
                let cnt = r.range(2, 4) as usize;
                let off = r.below(4) as usize;
                for i in 0..cnt {
                    let (role, by, rp) = roles[(i + off * (k % 2)) % roles.len()];
                    side.push(gen_role_machine_rp(r, role, by, rp));
                }
            }
        }
    }
    let n = if directed && r.chance(1, 2) { r.range(1, 6) as usize } else { r.range(1, 40) as usize };
    let mut t = *r.pick(&[0u64, 0, 1000, 1_000_000]);
    // absolute (epoch-style) or very late timestamps: beyond 2^53 ns a detour through f64 loses nanoseconds
    if r.chance(1, 10) {
        t = *r.pick(&[(1u64 << 53) + 1, 1_700_000_000_123_456_789, (1u64 << 62) + 12_345, (1u64 << 53) - 3]);
    }
    let mut trace = vec![];
    for _ in 0..n {
        t += *r.pick(&[0u64, 0, 1, 1000, 10_000, 100_000, 1_000_000, 5_000_000, 50_000_000, 1_000_000_000]);
        trace.push((t, r.chance(1, 2)));
    }
    // trace files need not be sorted: sometimes the lines come in another order (all sends first, a late
    // line first, a random permutation); the queue orders them
    if r.chance(1, 8) && trace.len() > 1 {
        match r.below(3) {
            0 => trace.sort_by_key(|x| !x.1),
            1 => {
                let k = r.range(1, trace.len() as u64 - 1) as usize;
                trace.swap(0, k);
            }
            _ => {
                for i in (1..trace.len()).rev() {
                    let j = r.below(i as u64 + 1) as usize;
                    trace.swap(i, j);
                }
            }
        }
    }
    let delay_ns = *r.pick(&[0u64, 1_000, 1_000_000, 10_000_000, 50_000_000]);
    let pps = if prop == "C14" { None } else if r.chance(1, 8) { Some(*r.pick(&[1usize, 2, 5, 50, 100000])) } else { None };
    let cont = !no_machines && r.chance(1, 3);
    SimCase {
        mc,
        ms,
        fr: [*r.pick(&FRACS), *r.pick(&FRACS), *r.pick(&FRACS), *r.pick(&FRACS)],
        delay_ns,
        pps,
        via_parse: r.chance(1, 2),
        trace,
        max_trace: if r.chance(1, 5) { r.range(1, 30) as usize } else { 0 },
        // with machines a run need not end by itself (e.g. perpetual blocking): always bound it
        max_iter: if cont { r.range(50, 600) as usize } else if r.chance(1, 6) { r.range(1, 100) as usize } else if no_machines { 0 } else { 1500 },
        cont,
        only_client: r.chance(1, 5),
        only_network: r.chance(1, 5),
        // boundary seeds: the server framework is seeded with seed + 1 (wrapping)
        seed: if r.chance(1, 8) { *r.pick(&[0u64, 1, u64::MAX, u64::MAX - 1, 1u64 << 63, u32::MAX as u64]) } else { r.next() },
    }
}

/// Fixed regression cases that run before the generated ones: the witnesses
/// of the findings F7, F8, F9, F10, F14 (see known_findings.json).
pub fn corpus(prop: &str) -> Vec<SimCase> {
    use enum_map::enum_map;
    use maybenot::action::Action;
    use maybenot::event::Event;
    use maybenot::state::{State, Trans};
    let two = |ev: Event, action: Action| -> Machine {
        let mut t0 = enum_map! { _ => vec![] };
        t0[ev] = vec![Trans(1, 1.0)];
        let s0 = State::new(t0);
        let mut s1 = State::new(enum_map! { _ => vec![] });
        s1.action = Some(action);
        Machine::new(u64::MAX, 0.0, u64::MAX, 0.0, vec![s0, s1]).unwrap()
    };
    let block = |tmo: f64, dur: f64, bypass: bool, replace: bool| Action::BlockOutgoing { bypass, replace, timeout: const_dist(tmo), duration: const_dist(dur), limit: None };
    let pad = |tmo: f64, bypass: bool, replace: bool| Action::SendPadding { bypass, replace, timeout: const_dist(tmo), limit: None };
    let base = |mc: Vec<Machine>, trace: Vec<(u64, bool)>| SimCase {
        mc,
        ms: vec![],
        fr: [1.0, 1.0, 1.0, 1.0],
        delay_ns: 1000,
        pps: None,
        via_parse: true,
        trace,
        max_trace: 0,
        max_iter: 200,
        cont: false,
        only_client: false,
        only_network: false,
        seed: 7,
    };
    let mut v = vec![];
    match prop {
        "C16" => {
            // F8 (known): zero-duration blocks
            v.push(base(vec![two(Event::NormalSent, block(0.0, 0.0, false, false))], vec![(0, true)]));
            v.push(base(vec![two(Event::NormalSent, block(0.0, 0.0, false, true))], vec![(0, true), (5000, true)]));
            // F10 (fixed): fail-closed block extended by a bypassable one, bypass padding during it
            v.push(base(
                vec![
                    two(Event::TunnelRecv, block(100.0, 100.0, false, false)),
                    two(Event::TunnelRecv, block(100.0, 1000.0, true, false)),
                    two(Event::BlockingBegin, pad(0.0, true, false)),
                ],
                vec![(1000, false), (5_000_000, true)],
            ));
            // F14 (fixed): a bypassable replace-block due 50 us later must not release queued bypass padding early
            v.push(base(
                vec![
                    two(Event::NormalSent, block(1.0, 100_000.0, false, true)),
                    two(Event::BlockingBegin, block(50.0, 100.0, true, true)),
                    two(Event::BlockingBegin, pad(0.0, true, false)),
                ],
                vec![(0, true), (5_000_000, true)],
            ));
        }
        "C17" => {
            // F14 (fixed): the action superseded by the released packet's trigger must not have fired.
            // m1: BlockingBegin -> state 1 (bypassable replace-block in 50 us), TunnelSent -> state 2 (another in 20 us)
            let m1 = {
                let mut t0 = enum_map! { _ => vec![] };
                t0[Event::BlockingBegin] = vec![Trans(1, 1.0)];
                let mut t1 = enum_map! { _ => vec![] };
                t1[Event::TunnelSent] = vec![Trans(2, 1.0)];
                let s0 = State::new(t0);
                let mut s1 = State::new(t1);
                s1.action = Some(block(50.0, 100.0, true, true));
                let mut s2 = State::new(enum_map! { _ => vec![] });
                s2.action = Some(block(20.0, 100.0, true, true));
                Machine::new(u64::MAX, 0.0, u64::MAX, 0.0, vec![s0, s1, s2]).unwrap()
            };
            v.push(base(
                vec![two(Event::NormalSent, block(1.0, 100_000.0, false, true)), m1, two(Event::BlockingBegin, pad(0.0, true, false))],
                vec![(0, true), (5_000_000, true)],
            ));
        }
        "C18" => {
            // F7 (fixed): zero-duration UpdateTimer with no timer running
            v.push(base(vec![two(Event::NormalSent, Action::UpdateTimer { replace: false, duration: const_dist(0.0), limit: None })], vec![(0, true), (1000, true)]));
        }
        "C19" => {
            // F9 (fixed): a pps limit that is a multiple of 2^32
            let mut c = base(vec![], vec![(0, true), (1000, false)]);
            c.pps = Some(1usize << 32);
            v.push(c);
        }
        _ => {}
    }
    v
}
