//! Per-property scenario classes (what is generated) and monitors (an
//! independent recomputation of the property from what the implementation
//! produced; used to search for a concrete failing input).
use crate::fw::{FwCase, FwRun};
use crate::genm::*;
use crate::rng::SplitMix64;

pub struct Scenario {
    pub mp: MProfile,
    pub hp: HProfile,
    pub min_machines: u64,
    pub max_machines: u64,
    pub fw_fracs: bool,
}

pub fn scenario(prop: &str) -> Scenario {
    let mut s = Scenario {
        mp: MProfile::mixed(),
        hp: HProfile::mixed(),
        min_machines: 0,
        max_machines: 3,
        fw_fracs: true,
    };
    match prop {
        "C05" => {}
        "C01" => {
            s.mp.big_counters = true;
            s.mp.max_states = 5;
            s.hp.max_events = 8;
            s.hp.max_calls = 10;
            s.max_machines = 4;
        }
        "C02" => {
            s.mp.act_none = 1;
            s.mp.act_cancel = 0;
            s.mp.act_pad = 8;
            s.mp.act_block = 1;
            s.mp.act_timer = 0;
            // a few counters and limits: a machine can then END (or be moved) by a nested internal event in the
            // very call that scheduled its padding
            s.mp.counters = 12;
            s.mp.limits = 12;
            s.mp.signals = 0;
            s.mp.ends = 6;
            s.mp.trans_density = 60;
            s.mp.dist = DistMode::Const;
            s.mp.prob = ProbMode::Dyadic;
            s.hp.min_events = 1;
            s.hp.max_events = 1;
            s.hp.max_calls = 14;
            s.hp.weights = [2, 1, 3, 6, 6, 2, 1, 1, 1, 1];
            s.hp.huge_times = false;
            s.min_machines = 1;
            s.max_machines = 4;
        }
        "C03" => {
            s.mp.act_none = 1;
            s.mp.act_cancel = 0;
            s.mp.act_pad = 1;
            s.mp.act_block = 8;
            s.mp.act_timer = 0;
            s.mp.counters = 0;
            s.mp.limits = 0;
            s.mp.signals = 0;
            s.mp.ends = 3;
            s.mp.trans_density = 60;
            s.mp.dist = DistMode::Const;
            s.mp.prob = ProbMode::Dyadic;
            s.hp.min_events = 1;
            s.hp.max_events = 1;
            s.hp.max_calls = 16;
            s.hp.weights = [2, 1, 2, 2, 1, 2, 6, 5, 1, 1];
            s.min_machines = 1;
            s.max_machines = 3;
        }
        "C07" => {
            s.mp.act_none = 1;
            s.mp.act_cancel = 1;
            s.mp.act_pad = 4;
            s.mp.act_block = 4;
            s.mp.act_timer = 4;
            s.mp.limits = 90;
            s.mp.counters = 25;
            s.mp.signals = 5;
            s.mp.ends = 5;
            s.mp.trans_density = 65;
            s.mp.max_states = 3;
            s.mp.prob = ProbMode::Dyadic;
            s.mp.budgets = false;
            s.mp.fracs = false;
            s.hp.min_events = 1;
            s.hp.max_events = 2;
            s.hp.max_calls = 12;
            s.hp.weights = [1, 1, 1, 2, 6, 1, 5, 2, 5, 1];
            s.min_machines = 1;
            s.max_machines = 3;
            s.fw_fracs = false;
        }
        "C08" => {
            s.mp.counters = 75;
            s.mp.big_counters = true;
            s.mp.limits = 15;
            s.mp.signals = 5;
            s.mp.ends = 5;
            s.mp.trans_density = 60;
            s.mp.max_states = 3;
            s.mp.prob = ProbMode::Dyadic;
            s.mp.budgets = false;
            s.mp.fracs = false;
            s.hp.min_events = 1;
            s.hp.max_events = 3;
            s.hp.max_calls = 10;
            s.min_machines = 1;
            s.max_machines = 3;
            s.fw_fracs = false;
        }
        "C09" => {
            s.mp.signals = 70;
            s.mp.ends = 8;
            s.mp.trans_density = 55;
            s.mp.counters = 25;
            s.mp.limits = 25;
            s.mp.max_states = 3;
            s.mp.prob = ProbMode::Dyadic;
            s.hp.min_events = 1;
            s.hp.max_events = 4;
            s.hp.max_calls = 6;
            s.min_machines = 1;
            s.max_machines = 4;
        }
        "C04" => {
            s.mp.ends = 35;
            s.mp.signals = 25;
            s.mp.limits = 50;
            s.mp.counters = 40;
            s.mp.trans_density = 55;
            s.hp.max_events = 16;
            s.hp.max_calls = 8;
            s.max_machines = 4;
        }
        _ => {}
    }
    s.min_machines = s.min_machines.min(s.max_machines);
    s
}

pub fn gen_case(prop: &str, r: &mut SplitMix64) -> FwCase {
    // C05 is "the actions are those the stated semantics prescribes" for every feature: half of its cases
    // come from the mixed profile, half from the directed scenario classes of the other framework properties
    let sprop = if prop == "C05" && r.chance(1, 2) { *r.pick(&["C01", "C02", "C03", "C04", "C07", "C08", "C09", "C09"]) } else { prop };
    let mut sc = scenario(sprop);
    let script = match r.below(6) {
        0 => vec![0; 8],
        1 => vec![u64::MAX; 8],
        2 => vec![0, u64::MAX, 0, u64::MAX, 0, u64::MAX],
        _ => vec![],
    };
    if !script.is_empty() {
        sc.mp.families = false;
    }
    if (prop == "C01" || prop == "C04") && script.is_empty() && r.chance(1, 2) {
        sc.mp.dist = DistMode::Heavy;
    }
    let n = r.range(sc.min_machines, sc.max_machines) as usize;
    let machines = (0..n).map(|_| gen_machine(r, &sc.mp)).collect::<Vec<_>>();
    // C01 quantifies over what validation ACCEPTS: also run adversarially mutated machines that the
    // real validator lets through (with a sound validator these are valid machines like the others)
    let mut machines = machines;
    if prop == "C01" && n > 0 && r.chance(1, 4) {
        let k = r.below(n as u64) as usize;
        let mut mm = crate::c12::to_mirror(&machines[k]);
        for _ in 0..r.range(1, 2) {
            crate::c12::mutate(r, &mut mm);
        }
        let m2 = crate::c12::from_mirror(&mm);
        if m2.validate().is_ok() {
            machines[k] = m2;
        }
    }
    let (fpad, fblk) = if sc.fw_fracs {
        (*r.pick(&FRACS), *r.pick(&FRACS))
    } else {
        (0.0, 0.0)
    };
    let (mut t0, mut calls) = gen_history(r, n, &sc.hp);
    // The crate's own clock (std::time): the properties are about the framework as users run it, and the
    // time traits' std implementations (from_micros, saturating_duration_since, the f64 quotient of two
    // durations) are code of the crate. A share of the cases of the time-dependent properties runs there;
    // ticks become nanoseconds (scaled so that whole seconds and sub-second parts both occur), capped
    // below 2^58 ns so that sums of a history's blocked times stay within 64 bits.
    let std = matches!(prop, "C01" | "C03" | "C05") && r.chance(1, 3);
    if std {
        let mult = *r.pick(&[1u64, 1000, 1000, 1_000_000, 1_000_000_007]);
        let conv = |t: u64| (t as u128 * mult as u128).min((1u128 << 58) - 1) as u64;
        t0 = conv(t0);
        for c in calls.iter_mut() {
            c.0 = conv(c.0);
        }
    }
    FwCase {
        machines,
        fpad,
        fblk,
        t0,
        calls,
        script,
        seed: r.next(),
        std,
    }
}

/// returns a description of the violation, if the run violates the property
pub fn monitor(prop: &str, c: &FwCase, run: &FwRun) -> Option<String> {
    if c.std && !matches!(prop, "C01" | "C03") {
        // the other monitors read durations as microseconds; std cases are judged by the differential run
        return None;
    }
    match prop {
        "C01" => mon_c01(c, run),
        "C04" => mon_c04(c, run),
        "C02" => mon_c02(c, run),
        "C03" => mon_c03(c, run),
        "C09" => mon_c09(c, run),
        "C07" => mon_c07(c, run),
        "C08" => mon_c08(c, run),
        _ => None,
    }
}

/// C01: no panic, and the per-call step count is within
/// (events+1)*(machines+1) + 2*machines
fn mon_c01(c: &FwCase, run: &FwRun) -> Option<String> {
    if let Some(p) = &run.panic {
        return Some(format!("panic after {} completed call(s): {}", run.calls.len(), p));
    }
    if let Some(e) = &run.new_err {
        return Some(format!("Framework::new rejected validated machines: {}", e));
    }
    let n = c.machines.len() as u64;
    for (i, rec) in run.calls.iter().enumerate() {
        let e = c.calls[i].1.len() as u64;
        let bound = (e + 1) * (n + 1) + 2 * n;
        if rec.steps > bound {
            return Some(format!(
                "call {}: {} machine steps for {} events and {} machines exceeds the bound {}",
                i, rec.steps, e, n, bound
            ));
        }
    }
    None
}

/// is the case non-trivial for the property (its mechanism fired)?
pub fn nontrivial(prop: &str, c: &FwCase, run: &FwRun) -> bool {
    match prop {
        // a padding action was returned and a padding action was denied by a budget
        "C02" => {
            run.calls.iter().any(|c| c.actions.iter().any(|a| matches!(a, TriggerAction::SendPadding { .. })))
                && c.machines.iter().any(|m| m.max_padding_frac > 0.0 || m.allowed_padding_packets > 0) 
        }
        "C08" => run.calls.iter().any(|c| c.log.iter().any(|e| e.0 == maybenot::verif::LOG_CZERO)),
        "C07" => run.calls.iter().any(|c| c.log.iter().any(|e| e.0 == maybenot::verif::LOG_DEC)),
        "C09" => run.calls.iter().any(|c| c.log.iter().any(|e| e.0 == maybenot::verif::LOG_SIGSET)),
        "C03" => run
            .calls
            .iter()
            .any(|c| c.actions.iter().any(|a| matches!(a, TriggerAction::BlockOutgoing { .. }))),
        _ => run.calls.iter().any(|c| !c.actions.is_empty()),
    }
}

use maybenot::action::Action;
use maybenot::constants::STATE_END;
use maybenot::TriggerAction;

const DAY_US: u64 = 86_400_000_000;

/// C04: at most one well-formed action per machine per call; END absorbing
fn mon_c04(c: &FwCase, run: &FwRun) -> Option<String> {
    let n = c.machines.len();
    let mut ended = vec![false; n];
    for (j, rec) in run.calls.iter().enumerate() {
        let mut seen = vec![false; n];
        if n == 0 && !rec.actions.is_empty() {
            return Some(format!("call {}: action returned by a framework without machines", j));
        }
        for a in &rec.actions {
            let (mi, ok_shape, durs): (usize, bool, Vec<u64>) = match a {
                TriggerAction::Cancel { machine, timer } => {
                    let mi = machine.into_raw();
                    (mi, mi < n && c.machines[mi].states.iter().any(|s| matches!(s.action, Some(Action::Cancel { timer: t }) if t == *timer)), vec![])
                }
                TriggerAction::SendPadding { timeout, bypass, replace, machine } => {
                    let mi = machine.into_raw();
                    (mi, mi < n && c.machines[mi].states.iter().any(|s| matches!(s.action, Some(Action::SendPadding { bypass: b, replace: r, .. }) if b == *bypass && r == *replace)), vec![timeout.0])
                }
                TriggerAction::BlockOutgoing { timeout, duration, bypass, replace, machine } => {
                    let mi = machine.into_raw();
                    (mi, mi < n && c.machines[mi].states.iter().any(|s| matches!(s.action, Some(Action::BlockOutgoing { bypass: b, replace: r, .. }) if b == *bypass && r == *replace)), vec![timeout.0, duration.0])
                }
                TriggerAction::UpdateTimer { duration, replace, machine } => {
                    let mi = machine.into_raw();
                    (mi, mi < n && c.machines[mi].states.iter().any(|s| matches!(s.action, Some(Action::UpdateTimer { replace: r, .. }) if r == *replace)), vec![duration.0])
                }
            };
            if mi >= n {
                return Some(format!("call {}: action for machine {} which does not exist ({} machines)", j, mi, n));
            }
            if seen[mi] {
                return Some(format!("call {}: two actions for machine {}", j, mi));
            }
            seen[mi] = true;
            if !ok_shape {
                return Some(format!("call {}: action {:?} matches no state of machine {}", j, a, mi));
            }
            if durs.iter().any(|d| *d > DAY_US) {
                return Some(format!("call {}: timeout/duration above 24h in {:?}", j, a));
            }
            if ended[mi] {
                return Some(format!("call {}: action for machine {} which reached its end state in an earlier call", j, mi));
            }
        }
        for (mi, m) in rec.snap.machines.iter().enumerate() {
            if m.current_state == STATE_END {
                ended[mi] = true;
            } else if ended[mi] {
                return Some(format!("call {}: machine {} left its end state", j, mi));
            }
        }
    }
    None
}

/// exact test  p / t < f  for a finite f64 f >= 0 (p, t < 2^40)
pub fn ratio_below(p: u64, t: u64, f: f64) -> bool {
    if t == 0 {
        return true;
    }
    if !(f > 0.0) {
        return false;
    }
    if f.is_infinite() {
        return true;
    }
    // f = mant * 2^exp exactly
    let bits = f.to_bits();
    let e = ((bits >> 52) & 0x7ff) as i64;
    let frac = bits & ((1u64 << 52) - 1);
    let (mant, exp) = if e == 0 { (frac, -1074) } else { (frac | (1 << 52), e - 1075) };
    // p / t < mant * 2^exp  <=>  p < mant * t * 2^exp
    let lhs = p as u128;
    let rhs = (mant as u128) * (t as u128);
    if exp >= 0 {
        if exp > 20 {
            return true;
        }
        lhs < (rhs << exp)
    } else {
        let sh = (-exp) as u32;
        if sh > 80 {
            // f < 2^-27 * 2^-..; with p >= 1 and t < 2^40 the quotient is larger
            return p == 0 && rhs > 0;
        }
        (lhs << sh) < rhs
    }
}

fn frac_below(f: f64, p: u64, t: u64) -> bool {
    !(f > 0.0) || t == 0 || ratio_below(p, t, f)
}

/// C02: recount NormalSent / PaddingSent from the fed history; every returned
/// SendPadding must be within budget or below both fraction limits
fn mon_c02(c: &FwCase, run: &FwRun) -> Option<String> {
    let n = c.machines.len();
    let mut normal: u64 = 0;
    let mut pad: u64 = 0;
    let mut pad_i = vec![0u64; n];
    for (j, rec) in run.calls.iter().enumerate() {
        let evs = &c.calls[j].1;
        for e in evs {
            match e {
                maybenot::TriggerEvent::NormalSent => normal += 1,
                maybenot::TriggerEvent::PaddingSent { machine } => {
                    pad += 1;
                    if machine.into_raw() < n {
                        pad_i[machine.into_raw()] += 1;
                    }
                }
                _ => {}
            }
        }
        if evs.len() != 1 {
            continue;
        }
        for a in &rec.actions {
            if let TriggerAction::SendPadding { machine, .. } = a {
                let i = machine.into_raw();
                if i >= n {
                    continue;
                }
                let m = &c.machines[i];
                let ok = pad_i[i] < m.allowed_padding_packets
                    || (frac_below(m.max_padding_frac, pad_i[i], normal + pad_i[i])
                        && frac_below(c.fpad, pad, pad + normal));
                if !ok {
                    return Some(format!(
                        "call {}: SendPadding for machine {} with {} own paddings (budget {}), machine fraction {}/{} vs limit {}, global fraction {}/{} vs limit {}",
                        j, i, pad_i[i], m.allowed_padding_packets, pad_i[i], normal + pad_i[i], m.max_padding_frac, pad, pad + normal, c.fpad
                    ));
                }
            }
        }
    }
    None
}

fn mul_wide(a: u128, b: u128) -> (u128, u128) {
    let (a1, a0) = (a >> 64, a & 0xffff_ffff_ffff_ffff);
    let (b1, b0) = (b >> 64, b & 0xffff_ffff_ffff_ffff);
    let p00 = a0 * b0;
    let p01 = a0 * b1;
    let p10 = a1 * b0;
    let p11 = a1 * b1;
    let mid = (p00 >> 64) + (p01 & 0xffff_ffff_ffff_ffff) + (p10 & 0xffff_ffff_ffff_ffff);
    let lo = (p00 & 0xffff_ffff_ffff_ffff) | (mid << 64);
    let hi = p11 + (p01 >> 64) + (p10 >> 64) + (mid >> 64);
    (hi, lo)
}

/// exact test d / e < f for f64 f > 0 finite, e > 0 (any u64 d, e)
pub fn ratio_below_wide(d: u64, e: u64, f: f64) -> bool {
    let bits = f.to_bits();
    let ex = ((bits >> 52) & 0x7ff) as i64;
    let frac = bits & ((1u64 << 52) - 1);
    let (mant, exp) = if ex == 0 { (frac, -1074i64) } else { (frac | (1 << 52), ex - 1075) };
    // d < mant * 2^exp * e
    let rhs = mul_wide(mant as u128, e as u128);
    if exp >= 0 {
        // f >= 2^52: larger than any quotient of u64 values unless e tiny; compare d < rhs << exp
        if rhs.0 != 0 || exp >= 64 {
            return true;
        }
        return (d as u128) < rhs.1.checked_shl(exp as u32).unwrap_or(u128::MAX);
    }
    let sh = (-exp) as u32;
    if sh >= 190 {
        return d == 0 && (rhs.0 != 0 || rhs.1 != 0);
    }
    // lhs = d << sh as 256 bit
    let lhs = if sh >= 128 {
        ((d as u128) << (sh - 128), 0u128)
    } else if sh == 0 {
        (0, d as u128)
    } else {
        ((d as u128) >> (128 - sh), (d as u128) << sh)
    };
    lhs < rhs
}

fn share_below(f: f64, d: u64, e: u64) -> bool {
    if !(f > 0.0) {
        return true;
    }
    if d < (1 << 53) && e < (1 << 53) {
        if e == 0 {
            return d == 0;
        }
        ratio_below_wide(d, e, f)
    } else {
        // beyond exact u64->f64 conversion the property is stated for the clock's own f64 quotient
        !((d as f64) / (e as f64) >= f)
    }
}

/// C03: recompute blocked time from BlockingBegin/BlockingEnd reports and timestamps
fn mon_c03(c: &FwCase, run: &FwRun) -> Option<String> {
    let n = c.machines.len();
    let mut active = false;
    let mut started: u64 = c.t0;
    let mut acc: u64 = 0;
    for (j, rec) in run.calls.iter().enumerate() {
        let (t, evs) = &c.calls[j];
        for e in evs {
            match e {
                maybenot::TriggerEvent::BlockingBegin { .. } => {
                    if !active {
                        active = true;
                        started = *t;
                    }
                }
                maybenot::TriggerEvent::BlockingEnd => {
                    if active {
                        acc = acc.saturating_add(t.saturating_sub(started));
                        active = false;
                    }
                }
                _ => {}
            }
        }
        if evs.len() != 1 {
            continue;
        }
        let ongoing = if active { t.saturating_sub(started) } else { 0 };
        let blocked = acc.saturating_add(ongoing);
        let elapsed = t.saturating_sub(c.t0);
        for a in &rec.actions {
            if let TriggerAction::BlockOutgoing { machine, replace, .. } = a {
                let i = machine.into_raw();
                if i >= n {
                    continue;
                }
                let m = &c.machines[i];
                // std clock: ticks are nanoseconds, and the share is the quotient of two as_secs_f64()
                // values, a few ulps from the exact one (theorem share_below_std_tolerance: within 2^-50)
                let (allowed, tol) = if c.std { ((m.allowed_blocked_microsec as u128) * 1000, 1.0 + 1.0 / (1u64 << 49) as f64) } else { (m.allowed_blocked_microsec as u128, 1.0) };
                let below = |f: f64| -> bool {
                    if c.std {
                        !(f > 0.0) || (elapsed == 0 && blocked == 0) || (elapsed > 0 && ratio_below_wide(blocked, elapsed, f * tol))
                    } else {
                        share_below(f, blocked, elapsed)
                    }
                };
                let ok = (*replace && active) || (blocked as u128) < allowed || (below(m.max_blocking_frac) && below(c.fblk));
                if !ok {
                    return Some(format!(
                        "call {}: BlockOutgoing(replace={}) for machine {}: blocking active={}, blocked {} us (allowed {}), elapsed {} us, machine limit {}, framework limit {}",
                        j, replace, i, active, blocked, m.allowed_blocked_microsec, elapsed, m.max_blocking_frac, c.fblk
                    ));
                }
            }
        }
    }
    None
}

/// C09: delivery counts per machine per call from the internal log
fn mon_c09(c: &FwCase, run: &FwRun) -> Option<String> {
    use maybenot::verif::{LOG_SIGDELIVER, LOG_SIGSET};
    let n = c.machines.len();
    let mut prev_ended: Vec<bool> = run
        .new_snap
        .as_ref()
        .map(|s| s.machines.iter().map(|m| m.current_state == STATE_END).collect())
        .unwrap_or_default();
    for (j, rec) in run.calls.iter().enumerate() {
        let mut signallers: Vec<usize> = vec![];
        let mut deliv = vec![0u32; n];
        for (tag, a, _) in &rec.log {
            if *tag == LOG_SIGSET && !signallers.contains(&(*a as usize)) {
                signallers.push(*a as usize);
            }
            if *tag == LOG_SIGDELIVER && (*a as usize) < n {
                deliv[*a as usize] += 1;
            }
        }
        let ended_now: Vec<bool> = rec.snap.machines.iter().map(|m| m.current_state == STATE_END).collect();
        for i in 0..n {
            if deliv[i] > 1 {
                return Some(format!("call {}: machine {} received {} Signals in one call", j, i, deliv[i]));
            }
            let live = !prev_ended[i] && !ended_now[i];
            match signallers.len() {
                0 => {
                    if deliv[i] != 0 {
                        return Some(format!("call {}: machine {} received a Signal although no machine signalled in this call", j, i));
                    }
                }
                1 => {
                    let a = signallers[0];
                    if i == a && deliv[i] != 0 {
                        return Some(format!("call {}: the lone signaller {} received its own Signal", j, a));
                    }
                    if i != a && live && deliv[i] != 1 {
                        return Some(format!("call {}: lone signaller {}, live machine {} received {} Signals (expected 1)", j, a, i, deliv[i]));
                    }
                }
                _ => {
                    if live && deliv[i] != 1 {
                        return Some(format!("call {}: machines {:?} signalled, live machine {} received {} Signals (expected 1)", j, signallers, i, deliv[i]));
                    }
                }
            }
        }
        if rec.snap.signal_pending != 0 {
            return Some(format!("call {}: a pending signal survives the call", j));
        }
        prev_ended = ended_now;
    }
    None
}

fn limited_kind(a: &Option<Action>) -> bool {
    matches!(a, Some(Action::SendPadding { .. }) | Some(Action::BlockOutgoing { .. }) | Some(Action::UpdateTimer { .. }))
}
fn has_limit(a: &Option<Action>) -> bool {
    matches!(a, Some(Action::SendPadding { limit: Some(_), .. }) | Some(Action::BlockOutgoing { limit: Some(_), .. }) | Some(Action::UpdateTimer { limit: Some(_), .. }))
}

/// C07: stay-tracking over snapshots and the internal log
fn mon_c07(c: &FwCase, run: &FwRun) -> Option<String> {
    use maybenot::verif::{LOG_CHANGE, LOG_DEC, LOG_LIMIT};
    let n = c.machines.len();
    let mut prev = run.new_snap.clone()?;
    for (j, rec) in run.calls.iter().enumerate() {
        let evs = &c.calls[j].1;
        for i in 0..n {
            let before = &prev.machines[i];
            let after = &rec.snap.machines[i];
            let changed = rec.log.iter().any(|e| e.0 == LOG_CHANGE && e.1 == i as u64);
            let decs = rec.log.iter().filter(|e| e.0 == LOG_DEC && e.1 == i as u64).count() as u64;
            let completions = evs
                .iter()
                .filter(|e| match e {
                    maybenot::TriggerEvent::PaddingSent { machine }
                    | maybenot::TriggerEvent::BlockingBegin { machine }
                    | maybenot::TriggerEvent::TimerBegin { machine } => machine.into_raw() == i,
                    _ => false,
                })
                .count() as u64;
            if decs > completions {
                return Some(format!("call {}: machine {}'s limit was decremented {} times for {} completions naming it", j, i, decs, completions));
            }
            if !changed {
                if !(after.current_state == before.current_state || after.current_state == STATE_END) {
                    return Some(format!("call {}: machine {} changed state without a state-change record", j, i));
                }
                if after.state_limit != before.state_limit.saturating_sub(decs) {
                    return Some(format!(
                        "call {}: machine {} stayed in state {} but its limit went from {} to {} with {} completion(s) (self-transitions must not refresh, others must not consume)",
                        j, i, before.current_state, before.state_limit, after.state_limit, decs
                    ));
                }
                if before.current_state != STATE_END {
                    let st = &c.machines[i].states[before.current_state];
                    // a limit of zero yields no limited action from this state
                    if before.state_limit == 0 && limited_kind(&st.action) {
                        let acted = rec.actions.iter().any(|a| {
                            let (m, lim) = match a {
                                TriggerAction::SendPadding { machine, .. } => (machine.into_raw(), true),
                                TriggerAction::BlockOutgoing { machine, .. } => (machine.into_raw(), true),
                                TriggerAction::UpdateTimer { machine, .. } => (machine.into_raw(), true),
                                TriggerAction::Cancel { machine, .. } => (machine.into_raw(), false),
                            };
                            m == i && lim
                        });
                        if acted {
                            return Some(format!("call {}: machine {} returned a limited action from state {} with remaining limit 0", j, i, before.current_state));
                        }
                    }
                    // reaching 0 with a limit on the action raises LimitReached at once
                    if decs == 1 && before.state_limit == 1 && has_limit(&st.action) {
                        let pos = rec.log.iter().position(|e| e.0 == LOG_DEC && e.1 == i as u64).unwrap();
                        let next = rec.log.get(pos + 1);
                        if !matches!(next, Some(e) if e.0 == LOG_LIMIT && e.1 == i as u64) {
                            return Some(format!("call {}: machine {}'s limit reached 0 but LimitReached was not raised immediately", j, i));
                        }
                    }
                }
            }
        }
        prev = rec.snap.clone();
    }
    None
}

/// C08: CounterZero bookkeeping from snapshots and the internal log
fn mon_c08(c: &FwCase, run: &FwRun) -> Option<String> {
    use maybenot::constants::STATE_SIGNAL;
    use maybenot::verif::{LOG_CZERO, LOG_NEXT};
    let n = c.machines.len();
    let mut prev = run.new_snap.clone()?;
    for (j, rec) in run.calls.iter().enumerate() {
        for i in 0..n {
            let cz = rec.log.iter().filter(|e| e.0 == LOG_CZERO && e.1 == i as u64).count();
            if cz > 2 {
                return Some(format!("call {}: machine {} received CounterZero {} times in one call", j, i, cz));
            }
            let updates = rec
                .log
                .iter()
                .filter(|e| e.0 == LOG_NEXT && e.1 == i as u64 && e.2 != STATE_END as u64 && e.2 != STATE_SIGNAL as u64)
                .count();
            let (b, a) = (&prev.machines[i], &rec.snap.machines[i]);
            if updates == 1 && cz == 0 {
                if (b.counter_a != 0 && a.counter_a == 0) || (b.counter_b != 0 && a.counter_b == 0) {
                    return Some(format!(
                        "call {}: a counter of machine {} went from non-zero to zero ((a,b) {:?} -> {:?}) but no CounterZero was raised for it",
                        j, i, (b.counter_a, b.counter_b), (a.counter_a, a.counter_b)
                    ));
                }
            }
            if updates == 0 && (b.counter_a != a.counter_a || b.counter_b != a.counter_b) {
                return Some(format!("call {}: counters of machine {} changed without a transition into a state", j, i));
            }
        }
        prev = rec.snap.clone();
    }
    None
}

/// C10: a deterministic machine M (probability-1 transitions, constant
/// distributions, no SIGNAL target) next to arbitrary neighbours that cannot
/// signal it, and the same machine alone on the projected history.
pub fn gen_c10_pair(r: &mut SplitMix64) -> (FwCase, FwCase, usize) {
    let mut mp = MProfile::mixed();
    mp.prob = ProbMode::One;
    mp.dist = DistMode::Const;
    mp.signals = 0;
    mp.counters = 40;
    mp.limits = 50;
    mp.trans_density = 55;
    mp.fracs = true;
    mp.budgets = true;
    let m = gen_machine(r, &mp);
    // neighbours: anything, but if M reacts to Signal they must not be able to signal
    let m_reacts_to_signal = m.states.iter().any(|s| !s.get_transitions()[maybenot::event::Event::Signal].is_empty());
    let mut np = MProfile::mixed();
    if m_reacts_to_signal {
        np.signals = 0;
    }
    let total = r.range(1, 4) as usize;
    let pos = r.below(total as u64) as usize;
    let mut machines = vec![];
    for k in 0..total {
        if k == pos {
            machines.push(m.clone());
        } else {
            machines.push(gen_machine(r, &np));
        }
    }
    let mut hp = HProfile::mixed();
    hp.max_calls = 10;
    hp.max_events = 3;
    let (t0, mut calls) = gen_history(r, total, &hp);
    // directed: counting machines (NormalSent up, NormalRecv down, act on CounterZero) next to each other, driven by
    // rounds of sends and receives, so that several machines zero a counter in the same call, repeatedly
    let mut machines = machines;
    let mut m = m;
    if r.chance(1, 3) {
        let counting = |r: &mut SplitMix64| -> maybenot::Machine {
            use enum_map::enum_map;
            use maybenot::counter::{Counter, Operation};
            use maybenot::event::Event;
            use maybenot::state::{State, Trans};
            let use_b = r.chance(1, 3);
            let set = |s: &mut State, op: Operation| {
                if use_b {
                    s.counter = (None, Some(Counter::new(op)));
                } else {
                    s.counter = (Some(Counter::new(op)), None);
                }
            };
            let mut t0 = enum_map! { _ => vec![] };
            t0[Event::NormalSent] = vec![Trans(0, 1.0)];
            t0[Event::NormalRecv] = vec![Trans(1, 1.0)];
            let mut s0 = State::new(t0);
            set(&mut s0, Operation::Increment);
            let mut t1 = enum_map! { _ => vec![] };
            t1[Event::NormalRecv] = vec![Trans(1, 1.0)];
            t1[Event::NormalSent] = vec![Trans(0, 1.0)];
            t1[Event::CounterZero] = vec![Trans(2, 1.0)];
            let mut s1 = State::new(t1);
            set(&mut s1, Operation::Decrement);
            let mut t2 = enum_map! { _ => vec![] };
            t2[Event::NormalSent] = vec![Trans(0, 1.0)];
            let mut s2 = State::new(t2);
            s2.action = Some(maybenot::action::Action::SendPadding { bypass: false, replace: false, timeout: const_dist(*r.pick(&[1.0, 7.0, 100.0])), limit: None });
            maybenot::Machine::new(u64::MAX, 0.0, u64::MAX, 0.0, vec![s0, s1, s2]).unwrap()
        };
        let total2 = r.range(2, 3) as usize;
        machines = (0..total2).map(|_| counting(r)).collect();
        let pos2 = r.below(total2 as u64) as usize;
        m = machines[pos2].clone();
        // rounds: k sends then k receives, batched in one call or one event per call
        let mut t = t0;
        calls = vec![];
        for _ in 0..r.range(2, 5) {
            let k = r.range(1, 3) as usize;
            let mut evs: Vec<maybenot::TriggerEvent> = vec![];
            evs.extend((0..k).map(|_| maybenot::TriggerEvent::NormalSent));
            evs.extend((0..k).map(|_| maybenot::TriggerEvent::NormalRecv));
            if r.chance(1, 2) {
                t = t.saturating_add(1000);
                calls.push((t, evs));
            } else {
                for e in evs {
                    t = t.saturating_add(1000);
                    calls.push((t, vec![e]));
                }
            }
        }
        return finish_c10_pair(r, machines, m, pos2, t0, calls);
    }
    finish_c10_pair(r, machines, m, pos, t0, calls)
}

fn finish_c10_pair(r: &mut SplitMix64, machines: Vec<maybenot::Machine>, m: maybenot::Machine, pos: usize, t0: u64, calls: Vec<(u64, Vec<maybenot::TriggerEvent>)>) -> (FwCase, FwCase, usize) {
    let foreign = usize::MAX;
    let project = |e: &maybenot::TriggerEvent| -> maybenot::TriggerEvent {
        use maybenot::{MachineId, TriggerEvent::*};
        let map = |id: &MachineId| {
            if id.into_raw() == pos {
                MachineId::from_raw(0)
            } else {
                MachineId::from_raw(foreign)
            }
        };
        match e {
            PaddingSent { machine } => PaddingSent { machine: map(machine) },
            BlockingBegin { machine } => BlockingBegin { machine: map(machine) },
            TimerBegin { machine } => TimerBegin { machine: map(machine) },
            TimerEnd { machine } => TimerEnd { machine: map(machine) },
            other => other.clone(),
        }
    };
    let solo_calls = calls.iter().map(|(t, evs)| (*t, evs.iter().map(project).collect())).collect();
    let combined = FwCase { machines, fpad: 0.0, fblk: 0.0, t0, calls, script: vec![], seed: r.next(), std: false };
    let solo = FwCase { machines: vec![m], fpad: 0.0, fblk: 0.0, t0, calls: solo_calls, script: vec![], seed: r.next(), std: false };
    (combined, solo, pos)
}

/// C10 for an ARBITRARY machine that cannot signal (probabilistic transitions, sampled timeouts, limits
/// and counter values), directly on the implementation: the combined run notes which random words the
/// framework drew while stepping machine `pos`; the machine then runs alone on the projected history with a
/// random source that replays exactly those words; its actions must be identical (theorem C10_solo_any).
/// Returns (violation, whether the machine drew any random word, whether it returned an action).
pub fn c10_prob_direct(r: &mut SplitMix64) -> (Option<String>, bool, bool) {
    use crate::rng::{ReplayRng, ScriptRng, TagRng, TagState};
    use std::cell::RefCell;
    use std::rc::Rc;
    let mut mp = MProfile::mixed();
    mp.signals = 0;
    mp.counters = 40;
    mp.limits = 50;
    mp.trans_density = 55;
    mp.budgets = true;
    if r.chance(1, 2) {
        mp.dist = DistMode::Const;
    }
    let total = r.range(1, 4) as usize;
    let pos = r.below(total as u64) as usize;
    let machines: Vec<maybenot::Machine> = (0..total).map(|_| gen_machine(r, &mp)).collect();
    let m = machines[pos].clone();
    let mut hp = HProfile::mixed();
    hp.max_calls = 10;
    hp.max_events = 3;
    let (t0, calls) = gen_history(r, total, &hp);
    let (combined, solo, pos) = finish_c10_pair(r, machines, m, pos, t0, calls);
    let seed = combined.seed;
    // random words drawn by Framework::new for the machines before `pos` and up to `pos`
    let init_words = |k: usize| -> usize {
        let st = Rc::new(RefCell::new(TagState::default()));
        let mut c = combined.clone();
        c.machines.truncate(k);
        c.calls.clear();
        let _ = crate::fw::run_case_with_rng(&c, &crate::fw::VirtualClock, TagRng { inner: ScriptRng::new(vec![], seed), st: st.clone() });
        let n = st.borrow().words.len();
        n
    };
    let (lo, hi) = (init_words(pos), init_words(pos + 1));
    let st = Rc::new(RefCell::new(TagState::default()));
    let rc = crate::fw::run_case_with_rng(&combined, &crate::fw::VirtualClock, TagRng { inner: ScriptRng::new(vec![], seed), st: st.clone() });
    let words = &st.borrow().words;
    let ninit = words.iter().take_while(|(t, _)| t.is_none()).count();
    if rc.panic.is_some() || rc.new_err.is_some() || hi < lo || hi > ninit {
        return (None, false, false);
    }
    let mut mine: Vec<u64> = words[lo..hi].iter().map(|x| x.1).collect();
    mine.extend(words[ninit..].iter().filter(|(t, _)| *t == Some(pos as u64)).map(|x| x.1));
    let drew = !mine.is_empty();
    let rst = Rc::new(RefCell::new((0usize, false)));
    let nwords = mine.len();
    let rs = crate::fw::run_case_with_rng(&solo, &crate::fw::VirtualClock, ReplayRng { words: mine, st: rst.clone() });
    let acted = rc.calls.iter().any(|c| {
        c.actions.iter().any(|a| {
            let mut t = vec![];
            crate::enc::out_action(a, &mut t);
            t[1] == pos as u64
        })
    });
    if let Some(v) = mon_c10(&rc, &rs, pos) {
        return (Some(format!("(probabilistic machine, fed the random words it drew next to its neighbours) {} machines={:?} position={} calls={:?}", v, combined.machines.iter().map(|m| m.serialize()).collect::<Vec<_>>(), pos, combined.calls)), drew, acted);
    }
    let (used, beyond) = *rst.borrow();
    if beyond || used != nwords {
        return (
            Some(format!(
                "(probabilistic machine) alone, machine {} consumed {} random words{} where it consumed {} next to its neighbours: machines={:?} calls={:?}",
                pos,
                used,
                if beyond { " and asked for more" } else { "" },
                nwords,
                combined.machines.iter().map(|m| m.serialize()).collect::<Vec<_>>(),
                combined.calls
            )),
            drew,
            acted,
        );
    }
    (None, drew, acted)
}

pub fn mon_c10(comb: &FwRun, solo: &FwRun, pos: usize) -> Option<String> {
    if comb.panic.is_some() || solo.panic.is_some() {
        return Some("panic".to_string());
    }
    for (j, (a, b)) in comb.calls.iter().zip(solo.calls.iter()).enumerate() {
        let mine: Vec<Vec<u64>> = a
            .actions
            .iter()
            .filter_map(|x| {
                let mut t = vec![];
                crate::enc::out_action(x, &mut t);
                if t[1] == pos as u64 {
                    t[1] = 0;
                    Some(t)
                } else {
                    None
                }
            })
            .collect();
        let alone: Vec<Vec<u64>> = b
            .actions
            .iter()
            .map(|x| {
                let mut t = vec![];
                crate::enc::out_action(x, &mut t);
                t
            })
            .collect();
        if mine != alone {
            return Some(format!(
                "call {}: machine at position {} acts {:?} next to its neighbours but {:?} alone on the projected history",
                j, pos, mine, alone
            ));
        }
    }
    None
}
