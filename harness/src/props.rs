//! Per-property scenario classes (what is generated) and monitors (an
//! independent recomputation of the property from what the implementation
//! produced; used to search for a concrete failing input).
use crate::fw::{FwCase, FwRun};
use crate::genm::*;
use crate::rng::SplitMix64;

pub struct Scenario {
    pub mp: MProfile,
    pub hp: HProfile,
    pub min_machines: u64,
    pub max_machines: u64,
    pub fw_fracs: bool,
}

pub fn scenario(prop: &str) -> Scenario {
    let mut s = Scenario {
        mp: MProfile::mixed(),
        hp: HProfile::mixed(),
        min_machines: 0,
        max_machines: 3,
        fw_fracs: true,
    };
    match prop {
        "C05" => {}
        "C01" => {
            s.mp.big_counters = true;
            s.mp.max_states = 5;
            s.hp.max_events = 8;
            s.hp.max_calls = 10;
            s.max_machines = 4;
        }
        "C04" => {
            s.mp.ends = 35;
            s.mp.signals = 25;
            s.mp.limits = 50;
            s.mp.counters = 40;
            s.mp.trans_density = 55;
            s.hp.max_events = 16;
            s.hp.max_calls = 8;
            s.max_machines = 4;
        }
        _ => {}
    }
    s.min_machines = s.min_machines.min(s.max_machines);
    s
}

pub fn gen_case(prop: &str, r: &mut SplitMix64) -> FwCase {
    let mut sc = scenario(prop);
    let script = match r.below(6) {
        0 => vec![0; 8],
        1 => vec![u64::MAX; 8],
        2 => vec![0, u64::MAX, 0, u64::MAX, 0, u64::MAX],
        _ => vec![],
    };
    if !script.is_empty() {
        sc.mp.families = false;
    }
    if (prop == "C01" || prop == "C04") && script.is_empty() && r.chance(1, 2) {
        sc.mp.dist = DistMode::Heavy;
    }
    let n = r.range(sc.min_machines, sc.max_machines) as usize;
    let machines = (0..n).map(|_| gen_machine(r, &sc.mp)).collect::<Vec<_>>();
    let (fpad, fblk) = if sc.fw_fracs {
        (*r.pick(&FRACS), *r.pick(&FRACS))
    } else {
        (0.0, 0.0)
    };
    let (t0, calls) = gen_history(r, n, &sc.hp);
    FwCase {
        machines,
        fpad,
        fblk,
        t0,
        calls,
        script,
        seed: r.next(),
    }
}

/// returns a description of the violation, if the run violates the property
pub fn monitor(prop: &str, c: &FwCase, run: &FwRun) -> Option<String> {
    match prop {
        "C01" => mon_c01(c, run),
        "C04" => mon_c04(c, run),
        _ => None,
    }
}

/// C01: no panic, and the per-call step count is within
/// (events+1)*(machines+1) + 2*machines
fn mon_c01(c: &FwCase, run: &FwRun) -> Option<String> {
    if let Some(p) = &run.panic {
        return Some(format!("panic after {} completed call(s): {}", run.calls.len(), p));
    }
    if let Some(e) = &run.new_err {
        return Some(format!("Framework::new rejected validated machines: {}", e));
    }
    let n = c.machines.len() as u64;
    for (i, rec) in run.calls.iter().enumerate() {
        let e = c.calls[i].1.len() as u64;
        let bound = (e + 1) * (n + 1) + 2 * n;
        if rec.steps > bound {
            return Some(format!(
                "call {}: {} machine steps for {} events and {} machines exceeds the bound {}",
                i, rec.steps, e, n, bound
            ));
        }
    }
    None
}

/// is the case non-trivial for the property (its mechanism fired)?
pub fn nontrivial(_prop: &str, _c: &FwCase, run: &FwRun) -> bool {
    run.calls.iter().any(|c| !c.actions.is_empty())
}

use maybenot::action::Action;
use maybenot::constants::STATE_END;
use maybenot::TriggerAction;

const DAY_US: u64 = 86_400_000_000;

/// C04: at most one well-formed action per machine per call; END absorbing
fn mon_c04(c: &FwCase, run: &FwRun) -> Option<String> {
    let n = c.machines.len();
    let mut ended = vec![false; n];
    for (j, rec) in run.calls.iter().enumerate() {
        let mut seen = vec![false; n];
        if n == 0 && !rec.actions.is_empty() {
            return Some(format!("call {}: action returned by a framework without machines", j));
        }
        for a in &rec.actions {
            let (mi, ok_shape, durs): (usize, bool, Vec<u64>) = match a {
                TriggerAction::Cancel { machine, timer } => {
                    let mi = machine.into_raw();
                    (mi, mi < n && c.machines[mi].states.iter().any(|s| matches!(s.action, Some(Action::Cancel { timer: t }) if t == *timer)), vec![])
                }
                TriggerAction::SendPadding { timeout, bypass, replace, machine } => {
                    let mi = machine.into_raw();
                    (mi, mi < n && c.machines[mi].states.iter().any(|s| matches!(s.action, Some(Action::SendPadding { bypass: b, replace: r, .. }) if b == *bypass && r == *replace)), vec![timeout.0])
                }
                TriggerAction::BlockOutgoing { timeout, duration, bypass, replace, machine } => {
                    let mi = machine.into_raw();
                    (mi, mi < n && c.machines[mi].states.iter().any(|s| matches!(s.action, Some(Action::BlockOutgoing { bypass: b, replace: r, .. }) if b == *bypass && r == *replace)), vec![timeout.0, duration.0])
                }
                TriggerAction::UpdateTimer { duration, replace, machine } => {
                    let mi = machine.into_raw();
                    (mi, mi < n && c.machines[mi].states.iter().any(|s| matches!(s.action, Some(Action::UpdateTimer { replace: r, .. }) if r == *replace)), vec![duration.0])
                }
            };
            if mi >= n {
                return Some(format!("call {}: action for machine {} which does not exist ({} machines)", j, mi, n));
            }
            if seen[mi] {
                return Some(format!("call {}: two actions for machine {}", j, mi));
            }
            seen[mi] = true;
            if !ok_shape {
                return Some(format!("call {}: action {:?} matches no state of machine {}", j, a, mi));
            }
            if durs.iter().any(|d| *d > DAY_US) {
                return Some(format!("call {}: timeout/duration above 24h in {:?}", j, a));
            }
            if ended[mi] {
                return Some(format!("call {}: action for machine {} which reached its end state in an earlier call", j, mi));
            }
        }
        for (mi, m) in rec.snap.machines.iter().enumerate() {
            if m.current_state == STATE_END {
                ended[mi] = true;
            } else if ended[mi] {
                return Some(format!("call {}: machine {} left its end state", j, mi));
            }
        }
    }
    None
}
