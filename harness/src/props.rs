//! Per-property scenario classes (what is generated) and monitors (an
//! independent recomputation of the property from what the implementation
//! produced; used to search for a concrete failing input).
use crate::fw::{FwCase, FwRun};
use crate::genm::*;
use crate::rng::SplitMix64;

pub struct Scenario {
    pub mp: MProfile,
    pub hp: HProfile,
    pub min_machines: u64,
    pub max_machines: u64,
    pub fw_fracs: bool,
}

pub fn scenario(prop: &str) -> Scenario {
    let mut s = Scenario {
        mp: MProfile::mixed(),
        hp: HProfile::mixed(),
        min_machines: 0,
        max_machines: 3,
        fw_fracs: true,
    };
    match prop {
        "C05" | "C01" => {}
        _ => {}
    }
    s.min_machines = s.min_machines.min(s.max_machines);
    s
}

pub fn gen_case(prop: &str, r: &mut SplitMix64) -> FwCase {
    let mut sc = scenario(prop);
    let script = match r.below(6) {
        0 => vec![0; 8],
        1 => vec![u64::MAX; 8],
        2 => vec![0, u64::MAX, 0, u64::MAX, 0, u64::MAX],
        _ => vec![],
    };
    if !script.is_empty() {
        sc.mp.families = false;
    }
    let n = r.range(sc.min_machines, sc.max_machines) as usize;
    let machines = (0..n).map(|_| gen_machine(r, &sc.mp)).collect::<Vec<_>>();
    let (fpad, fblk) = if sc.fw_fracs {
        (*r.pick(&FRACS), *r.pick(&FRACS))
    } else {
        (0.0, 0.0)
    };
    let (t0, calls) = gen_history(r, n, &sc.hp);
    FwCase {
        machines,
        fpad,
        fblk,
        t0,
        calls,
        script,
        seed: r.next(),
    }
}

/// returns a description of the violation, if the run violates the property
pub fn monitor(_prop: &str, _c: &FwCase, _run: &FwRun) -> Option<String> {
    None
}

/// is the case non-trivial for the property (its mechanism fired)?
pub fn nontrivial(_prop: &str, _c: &FwCase, run: &FwRun) -> bool {
    run.calls.iter().any(|c| !c.actions.is_empty())
}
