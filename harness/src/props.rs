//! Per-property scenario classes (what is generated) and monitors (an
//! independent recomputation of the property from what the implementation
//! produced; used to search for a concrete failing input).
use crate::fw::{FwCase, FwRun};
use crate::genm::*;
use crate::rng::SplitMix64;

pub struct Scenario {
    pub mp: MProfile,
    pub hp: HProfile,
    pub min_machines: u64,
    pub max_machines: u64,
    pub fw_fracs: bool,
}

pub fn scenario(prop: &str) -> Scenario {
    let mut s = Scenario {
        mp: MProfile::mixed(),
        hp: HProfile::mixed(),
        min_machines: 0,
        max_machines: 3,
        fw_fracs: true,
    };
    match prop {
        "C05" => {}
        "C01" => {
            s.mp.big_counters = true;
            s.mp.max_states = 5;
            s.hp.max_events = 8;
            s.hp.max_calls = 10;
            s.max_machines = 4;
        }
        _ => {}
    }
    s.min_machines = s.min_machines.min(s.max_machines);
    s
}

pub fn gen_case(prop: &str, r: &mut SplitMix64) -> FwCase {
    let mut sc = scenario(prop);
    let script = match r.below(6) {
        0 => vec![0; 8],
        1 => vec![u64::MAX; 8],
        2 => vec![0, u64::MAX, 0, u64::MAX, 0, u64::MAX],
        _ => vec![],
    };
    if !script.is_empty() {
        sc.mp.families = false;
    }
    if prop == "C01" && script.is_empty() && r.chance(1, 3) {
        sc.mp.dist = DistMode::Heavy;
    }
    let n = r.range(sc.min_machines, sc.max_machines) as usize;
    let machines = (0..n).map(|_| gen_machine(r, &sc.mp)).collect::<Vec<_>>();
    let (fpad, fblk) = if sc.fw_fracs {
        (*r.pick(&FRACS), *r.pick(&FRACS))
    } else {
        (0.0, 0.0)
    };
    let (t0, calls) = gen_history(r, n, &sc.hp);
    FwCase {
        machines,
        fpad,
        fblk,
        t0,
        calls,
        script,
        seed: r.next(),
    }
}

/// returns a description of the violation, if the run violates the property
pub fn monitor(prop: &str, c: &FwCase, run: &FwRun) -> Option<String> {
    match prop {
        "C01" => mon_c01(c, run),
        _ => None,
    }
}

/// C01: no panic, and the per-call step count is within
/// (events+1)*(machines+1) + 2*machines
fn mon_c01(c: &FwCase, run: &FwRun) -> Option<String> {
    if let Some(p) = &run.panic {
        return Some(format!("panic after {} completed call(s): {}", run.calls.len(), p));
    }
    if let Some(e) = &run.new_err {
        return Some(format!("Framework::new rejected validated machines: {}", e));
    }
    let n = c.machines.len() as u64;
    for (i, rec) in run.calls.iter().enumerate() {
        let e = c.calls[i].1.len() as u64;
        let bound = (e + 1) * (n + 1) + 2 * n;
        if rec.steps > bound {
            return Some(format!(
                "call {}: {} machine steps for {} events and {} machines exceeds the bound {}",
                i, rec.steps, e, n, bound
            ));
        }
    }
    None
}

/// is the case non-trivial for the property (its mechanism fired)?
pub fn nontrivial(_prop: &str, _c: &FwCase, run: &FwRun) -> bool {
    run.calls.iter().any(|c| !c.actions.is_empty())
}
