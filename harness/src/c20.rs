//! C20: the extern "C" functions of maybenot-ffi, called through the rlib with
//! canary-surrounded output buffers, against the model (and the Rust
//! framework run side by side).
use crate::enc::*;
use crate::fw::{run_case, FwCase};
use crate::genm::*;
use crate::rng::SplitMix64;
use maybenot::verif;
use maybenot::{Machine, TriggerAction, TriggerEvent};
use maybenot_ffi::*;
use std::ffi::CString;
use std::io::Write;
use std::mem::MaybeUninit;
use std::str::FromStr;

const CANARY: u8 = 0xAB;

fn c_event(e: &TriggerEvent) -> (u32, usize) {
    let mut t = vec![];
    enc_event(e, &mut t);
    (t[0] as u32, t[1] as usize)
}

fn split(us: u64) -> (u64, u64) {
    (us / 1_000_000, (us % 1_000_000) * 1000)
}

fn enc_c_action(a: &MaybenotAction, o: &mut Toks) {
    match *a {
        MaybenotAction::Cancel { machine, timer } => o.extend_from_slice(&[0, machine as u64, 0, 0, 0, 0, 0, 0, timer as u32 as u64]),
        MaybenotAction::SendPadding { machine, timeout, replace, bypass } => {
            o.extend_from_slice(&[1, machine as u64, timeout.secs, timeout.nanos as u64, replace as u64, bypass as u64, 0, 0, 0])
        }
        MaybenotAction::BlockOutgoing { machine, timeout, replace, bypass, duration } => o.extend_from_slice(&[
            2,
            machine as u64,
            timeout.secs,
            timeout.nanos as u64,
            replace as u64,
            bypass as u64,
            duration.secs,
            duration.nanos as u64,
            0,
        ]),
        MaybenotAction::UpdateTimer { machine, duration, replace } => {
            o.extend_from_slice(&[3, machine as u64, 0, 0, replace as u64, 0, duration.secs, duration.nanos as u64, 0])
        }
    }
}

fn enc_rust_action(a: &TriggerAction<crate::vclock::VInstant>, o: &mut Toks) {
    let mut t = vec![];
    out_action(a, &mut t); // [kind, m, timeout, duration, bypass, replace]
    let (ts, tn) = split(t[2]);
    let (ds, dn) = split(t[3]);
    match t[0] {
        0 => o.extend_from_slice(&[0, t[1], 0, 0, 0, 0, 0, 0, t[2]]),
        1 => o.extend_from_slice(&[1, t[1], ts, tn, t[5], t[4], 0, 0, 0]),
        2 => o.extend_from_slice(&[2, t[1], ts, tn, t[5], t[4], ds, dn, 0]),
        _ => o.extend_from_slice(&[3, t[1], 0, 0, t[5], 0, ds, dn, 0]),
    }
}

pub fn run(seed: u64, n: usize, out: &str, only: Option<usize>) {
    std::fs::create_dir_all(out).unwrap();
    let mut cases = std::io::BufWriter::new(std::fs::File::create(format!("{}/cases.txt", out)).unwrap());
    let mut implo = std::io::BufWriter::new(std::fs::File::create(format!("{}/impl.out", out)).unwrap());
    let mut meta = std::io::BufWriter::new(std::fs::File::create(format!("{}/meta.txt", out)).unwrap());
    let mut master = SplitMix64::new(seed ^ 0xc20);
    let mut viol = 0usize;
    let mut distinct = std::collections::HashSet::new();
    let (mut ok_cases, mut err_cases, mut total_actions) = (0usize, 0usize, 0usize);
    let mut nsample = 0;
    let asz = std::mem::size_of::<MaybenotAction>();
    for i in 0..n {
        let mut r = master.fork();
        if let Some(o) = only {
            if o != i {
                continue;
            }
        }
        // deterministic machines: probability-1 transitions, constant distributions, no time-dependent limits
        let mut mp = MProfile::mixed();
        mp.prob = ProbMode::One;
        mp.dist = DistMode::Const;
        mp.fracs = false;
        mp.budgets = false;
        mp.trans_density = 55;
        let nm = r.range(0, 4) as usize;
        let machines: Vec<Machine> = (0..nm).map(|_| gen_machine(&mut r, &mp)).collect();
        let mut hp = HProfile::mixed();
        hp.max_events = 6;
        hp.max_calls = 8;
        let (_, calls) = gen_history(&mut r, nm, &hp);
        // start arguments: mostly valid, sometimes each kind of invalid input
        let mode = r.below(10);
        let (mut fpad, mut fblk) = (0.0f64, 0.0f64);
        let mut lines: Vec<Vec<u8>> = machines.iter().map(|m| m.serialize().into_bytes()).collect();
        let mut out_null = false;
        match mode {
            0 => out_null = true,
            1 => {
                // not UTF-8
                lines.push(vec![0xff, 0xfe, b'a']);
            }
            2 => {
                // a line that is not a machine
                let k = r.below(lines.len() as u64 + 1) as usize;
                lines.insert(k, b"02AAAA".to_vec());
            }
            3 => {
                fpad = *r.pick(&[-0.1, 1.0000000000000002, f64::NAN, f64::INFINITY]);
            }
            4 => {
                fblk = *r.pick(&[-1e-300, 2.0, f64::NAN, f64::NEG_INFINITY]);
            }
            5 => {
                // str::lines: \r\n endings and a trailing newline are fine
                for l in lines.iter_mut() {
                    l.push(b'\r');
                }
            }
            6 => {
                fpad = *r.pick(&[1.0, 0.5]);
                fblk = 0.0; // the blocking fraction depends on wall-clock time: leave unset
            }
            _ => {}
        }
        let mut joined: Vec<u8> = lines.join(&b'\n');
        if mode == 5 {
            joined.push(b'\n');
        }
        let cstr = CString::new(joined.clone()).unwrap();
        let utf8_ok = std::str::from_utf8(&joined).is_ok();
        let line_ok: Vec<bool> = if utf8_ok {
            std::str::from_utf8(&joined).unwrap().lines().map(|l| Machine::from_str(l).is_ok()).collect()
        } else {
            vec![]
        };
        verif::arm(crate::fw::STEP_BUDGET);
        let mut fwp: MaybeUninit<*mut MaybenotFramework> = MaybeUninit::uninit();
        let code = unsafe {
            maybenot_start(cstr.as_ptr(), fpad, fblk, if out_null { std::ptr::null_mut() } else { &mut fwp as *mut _ })
        } as u32 as u64;
        let (t0, _, _) = verif::take();
        let mut tape: Vec<u64> = t0.iter().map(|x| x.1).collect();
        let started = code == 0;
        let this: *mut MaybenotFramework = if started { unsafe { fwp.assume_init() } } else { std::ptr::null_mut() };
        let mut ilines: Vec<Toks> = vec![vec![code], vec![unsafe { maybenot_num_machines(this) } as u64]];
        // the Rust API's own judgement of the same arguments
        let expect = if out_null {
            4
        } else if !utf8_ok {
            1
        } else if !line_ok.iter().all(|b| *b) {
            2
        } else if !((0.0..=1.0).contains(&fpad) && (0.0..=1.0).contains(&fblk)) {
            3
        } else {
            0
        };
        let mut violation: Option<String> = None;
        if code != expect {
            violation = Some(format!("maybenot_start returned {} but the Rust API's acceptance of the same arguments gives {}", code, expect));
        }
        let mut rust_case = FwCase { machines: machines.clone(), fpad, fblk, t0: 0, calls: vec![], script: vec![], seed: 1, std: false };
        if started {
            ok_cases += 1;
            // null-pointer arguments of on_events
            let ev0 = MaybenotEvent { event_type: unsafe { std::mem::transmute::<u32, MaybenotEventType>(0) }, machine: 0 };
            let mut cnt: usize = 77;
            let mut one = vec![MaybeUninit::<MaybenotAction>::uninit(); nm.max(1)];
            let nulls = unsafe {
                [
                    maybenot_on_events(std::ptr::null_mut(), &ev0, 1, one.as_mut_ptr(), &mut cnt) as u32,
                    maybenot_on_events(this, std::ptr::null(), 1, one.as_mut_ptr(), &mut cnt) as u32,
                    maybenot_on_events(this, &ev0, 1, std::ptr::null_mut(), &mut cnt) as u32,
                    maybenot_on_events(this, &ev0, 1, one.as_mut_ptr(), std::ptr::null_mut()) as u32,
                ]
            };
            if nulls != [4, 4, 4, 4] || cnt != 77 {
                violation = Some(format!("null arguments of maybenot_on_events gave {:?} (count cell {})", nulls, cnt));
            }
            let _ = verif::take();
            for (_, evs) in &calls {
                let cev: Vec<MaybenotEvent> = evs
                    .iter()
                    .map(|e| {
                        let (ty, m) = c_event(e);
                        MaybenotEvent { event_type: unsafe { std::mem::transmute::<u32, MaybenotEventType>(ty) }, machine: m }
                    })
                    .collect();
                // output buffer of nm slots with two canary slots on each side
                let mut raw = vec![CANARY; (nm + 4) * asz + 16];
                let base = {
                    let p = raw.as_mut_ptr() as usize;
                    let a = std::mem::align_of::<MaybenotAction>();
                    ((p + a - 1) / a * a) as *mut u8
                };
                let off = base as usize - raw.as_ptr() as usize;
                let slots = unsafe { base.add(2 * asz) } as *mut MaybeUninit<MaybenotAction>;
                let mut count: usize = usize::MAX;
                let dummy = MaybenotEvent { event_type: unsafe { std::mem::transmute::<u32, MaybenotEventType>(0) }, machine: 0 };
                let evp = if cev.is_empty() { &dummy as *const _ } else { cev.as_ptr() };
                let rc = unsafe { maybenot_on_events(this, evp, cev.len(), slots, &mut count) } as u32 as u64;
                let (tp, _, _) = verif::take();
                tape.extend(tp.iter().map(|x| if x.0 == verif::TAPE_U { ((f32::from_bits(x.1 as u32) * 8388608.0) as u64).min((1 << 23) - 1) } else { x.1 }));
                let mut l: Toks = vec![rc, count as u64];
                if count <= nm {
                    for k in 0..count {
                        let a = unsafe { (*slots.add(k)).assume_init() };
                        enc_c_action(&a, &mut l);
                    }
                    total_actions += count;
                    // canaries: the two slots before, everything from slot `count` to the end
                    let lo = &raw[off..off + 2 * asz];
                    let hi = &raw[off + (2 + nm) * asz..off + (4 + nm) * asz];
                    if lo.iter().any(|b| *b != CANARY) || hi.iter().any(|b| *b != CANARY) {
                        violation = Some("maybenot_on_events wrote outside the num_machines slots of the output buffer".into());
                    }
                } else {
                    violation = Some(format!("maybenot_on_events reported {} actions for {} machines", count, nm));
                }
                ilines.push(l);
                rust_case.calls.push((0, evs.clone()));
            }
            unsafe { maybenot_stop(this) };
            // the Rust framework fed identically must return the same actions
            let rr = run_case(&rust_case);
            for (k, rec) in rr.calls.iter().enumerate() {
                let mut l: Toks = vec![0, rec.actions.len() as u64];
                for a in &rec.actions {
                    enc_rust_action(a, &mut l);
                }
                if ilines.get(k + 2) != Some(&l) {
                    violation = Some(format!("call {}: the C API wrote {:?} but the Rust framework returns {:?}", k, ilines.get(k + 2), l));
                    break;
                }
            }
        } else {
            err_cases += 1;
        }
        verif::disarm();
        // the model case
        let mut toks: Toks = vec![9, fpad.to_bits(), fblk.to_bits()];
        if started {
            toks.push(nm as u64);
            for m in &machines {
                enc_machine(m, &mut toks);
            }
        } else {
            toks.push(0);
        }
        toks.push(0); // t0
        if started {
            toks.push(rust_case.calls.len() as u64);
            for (_, evs) in &rust_case.calls {
                toks.push(0);
                toks.push(evs.len() as u64);
                for e in evs {
                    let (ty, m) = c_event(e);
                    toks.push(ty as u64);
                    toks.push(m as u64);
                }
            }
        } else {
            toks.push(0);
        }
        toks.push(tape.len() as u64);
        toks.extend_from_slice(&tape);
        toks.push(2 + line_ok.len() as u64);
        toks.push(out_null as u64);
        toks.push(utf8_ok as u64);
        toks.extend(line_ok.iter().map(|b| *b as u64));
        writeln!(cases, "{}", hex_line(None, &toks)).unwrap();
        for l in &ilines {
            writeln!(implo, "{}", hex_line(Some(i), l)).unwrap();
        }
        if started && ilines.iter().skip(2).any(|l| l[1] > 0) {
            distinct.insert(toks);
        }
        let desc = format!("mode={} machines={} fractions=({:?},{:?}) start_code={} calls={}", mode, nm, fpad, fblk, code, rust_case.calls.len());
        if let Some(v) = violation {
            viol += 1;
            writeln!(meta, "violation case={} {} [{}]", i, v, desc).unwrap();
        }
        if nsample < 3 && started && nm > 1 {
            nsample += 1;
            writeln!(meta, "sample case={} {} machine_strings={:?}", i, desc, machines.iter().map(|m| m.serialize()).collect::<Vec<_>>()).unwrap();
        }
        if only.is_some() {
            writeln!(meta, "replay case={} {} events={:?}", i, desc, calls).unwrap();
        }
    }
    writeln!(meta, "summary cases={} nontrivial={} violations={} started={} start_errors={} actions={}", n, distinct.len(), viol, ok_cases, err_cases, total_actions).unwrap();
}
