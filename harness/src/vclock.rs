//! The harness's virtual clock: u64 microsecond ticks; durations add with
//! saturation. Implements maybenot's public time traits.
use maybenot::time::{Duration, Instant};
use std::ops::AddAssign;

#[derive(Clone, Copy, Debug, PartialEq, Eq, PartialOrd, Ord)]
pub struct VInstant(pub u64);

#[derive(Clone, Copy, Debug, PartialEq, Eq, PartialOrd, Ord)]
pub struct VDuration(pub u64);

impl AddAssign for VDuration {
    fn add_assign(&mut self, rhs: Self) {
        self.0 = self.0.saturating_add(rhs.0);
    }
}

impl Duration for VDuration {
    fn zero() -> Self {
        VDuration(0)
    }
    fn from_micros(micros: u64) -> Self {
        VDuration(micros)
    }
    fn is_zero(&self) -> bool {
        self.0 == 0
    }
    fn div_duration_f64(self, rhs: Self) -> f64 {
        self.0 as f64 / rhs.0 as f64
    }
}

impl Instant for VInstant {
    type Duration = VDuration;
    fn saturating_duration_since(&self, earlier: Self) -> Self::Duration {
        VDuration(self.0.saturating_sub(earlier.0))
    }
}
