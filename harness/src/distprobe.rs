//! Watchdog-supervised sampling of a distribution under a scripted RNG.
use crate::rng::ScriptRng;
use maybenot::dist::Dist;
use std::sync::mpsc;
use std::time::Duration;

#[derive(Debug, Clone, PartialEq)]
pub enum Probe {
    Values(Vec<f64>),
    Panic(String),
    Hang,
}

/// sample `count` values in a worker thread; a sample that does not return
/// within `ms` milliseconds is reported as a hang (the worker is abandoned).
pub fn probe(d: Dist, script: Vec<u64>, seed: u64, count: usize, ms: u64) -> Probe {
    let (tx, rx) = mpsc::channel();
    std::thread::spawn(move || {
        let r = std::panic::catch_unwind(move || {
            let mut rng = ScriptRng::new(script, seed);
            let mut v = Vec::with_capacity(count);
            for _ in 0..count {
                v.push(d.sample(&mut rng));
            }
            v
        });
        let _ = tx.send(r.map_err(crate::fw::panic_msg));
    });
    match rx.recv_timeout(Duration::from_millis(ms)) {
        Ok(Ok(v)) => Probe::Values(v),
        Ok(Err(m)) => Probe::Panic(m),
        Err(_) => Probe::Hang,
    }
}
