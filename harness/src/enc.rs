//! Wire encoding (DESIGN.md appendix B): cases as flat lists of naturals, and
//! the canonical output lines, token for token what Model/Wire.v produces.
use crate::vclock::{VDuration, VInstant};
use maybenot::action::{Action, Timer};
use maybenot::counter::{Counter, Operation};
use maybenot::dist::{Dist, DistType};
use maybenot::event::Event;
use maybenot::verif::Snapshot;
use maybenot::{Machine, TriggerAction, TriggerEvent};

pub type Toks = Vec<u64>;

pub fn enc_dist(d: &Dist, o: &mut Toks) {
    let (k, a, b, c) = match d.dist {
        DistType::Uniform { low, high } => (0, low.to_bits(), high.to_bits(), 0),
        DistType::Normal { mean, stdev } => (1, mean.to_bits(), stdev.to_bits(), 0),
        DistType::SkewNormal {
            location,
            scale,
            shape,
        } => (2, location.to_bits(), scale.to_bits(), shape.to_bits()),
        DistType::LogNormal { mu, sigma } => (3, mu.to_bits(), sigma.to_bits(), 0),
        DistType::Binomial {
            trials,
            probability,
        } => (4, trials, probability.to_bits(), 0),
        DistType::Geometric { probability } => (5, probability.to_bits(), 0, 0),
        DistType::Pareto { scale, shape } => (6, scale.to_bits(), shape.to_bits(), 0),
        DistType::Poisson { lambda } => (7, lambda.to_bits(), 0, 0),
        DistType::Weibull { scale, shape } => (8, scale.to_bits(), shape.to_bits(), 0),
        DistType::Gamma { scale, shape } => (9, scale.to_bits(), shape.to_bits(), 0),
        DistType::Beta { alpha, beta } => (10, alpha.to_bits(), beta.to_bits(), 0),
    };
    o.extend_from_slice(&[k, a, b, c, d.start.to_bits(), d.max.to_bits()]);
}

pub fn enc_optdist(d: &Option<Dist>, o: &mut Toks) {
    match d {
        None => o.push(0),
        Some(d) => {
            o.push(1);
            enc_dist(d, o)
        }
    }
}

pub fn timer_code(t: &Timer) -> u64 {
    match t {
        Timer::Action => 0,
        Timer::Internal => 1,
        Timer::All => 2,
    }
}

pub fn enc_action(a: &Option<Action>, o: &mut Toks) {
    match a {
        None => o.push(0),
        Some(Action::Cancel { timer }) => {
            o.push(1);
            o.push(timer_code(timer));
        }
        Some(Action::SendPadding {
            bypass,
            replace,
            timeout,
            limit,
        }) => {
            o.extend_from_slice(&[2, *bypass as u64, *replace as u64]);
            enc_dist(timeout, o);
            enc_optdist(limit, o);
        }
        Some(Action::BlockOutgoing {
            bypass,
            replace,
            timeout,
            duration,
            limit,
        }) => {
            o.extend_from_slice(&[3, *bypass as u64, *replace as u64]);
            enc_dist(timeout, o);
            enc_dist(duration, o);
            enc_optdist(limit, o);
        }
        Some(Action::UpdateTimer {
            replace,
            duration,
            limit,
        }) => {
            o.extend_from_slice(&[4, *replace as u64]);
            enc_dist(duration, o);
            enc_optdist(limit, o);
        }
    }
}

pub fn enc_counter(c: &Option<Counter>, o: &mut Toks) {
    match c {
        None => o.push(0),
        Some(c) => {
            o.push(1);
            o.push(match c.operation {
                Operation::Increment => 0,
                Operation::Decrement => 1,
                Operation::Set => 2,
            });
            enc_optdist(&c.dist, o);
            o.push(c.copy as u64);
        }
    }
}

pub fn enc_machine(m: &Machine, o: &mut Toks) {
    o.push(m.allowed_padding_packets);
    o.push(m.max_padding_frac.to_bits());
    o.push(m.allowed_blocked_microsec);
    o.push(m.max_blocking_frac.to_bits());
    o.push(m.states.len() as u64);
    for s in &m.states {
        enc_action(&s.action, o);
        enc_counter(&s.counter.0, o);
        enc_counter(&s.counter.1, o);
        let tr = s.get_transitions();
        for e in Event::iter() {
            let v = &tr[*e];
            if v.is_empty() {
                o.push(0);
            } else {
                o.push(1);
                o.push(v.len() as u64);
                for t in v {
                    o.push(t.0 as u64);
                    o.push(t.1.to_bits() as u64);
                }
            }
        }
    }
}

pub fn enc_event(e: &TriggerEvent, o: &mut Toks) {
    let (k, m) = match e {
        TriggerEvent::NormalRecv => (0, 0),
        TriggerEvent::PaddingRecv => (1, 0),
        TriggerEvent::TunnelRecv => (2, 0),
        TriggerEvent::NormalSent => (3, 0),
        TriggerEvent::PaddingSent { machine } => (4, machine.into_raw() as u64),
        TriggerEvent::TunnelSent => (5, 0),
        TriggerEvent::BlockingBegin { machine } => (6, machine.into_raw() as u64),
        TriggerEvent::BlockingEnd => (7, 0),
        TriggerEvent::TimerBegin { machine } => (8, machine.into_raw() as u64),
        TriggerEvent::TimerEnd { machine } => (9, machine.into_raw() as u64),
    };
    o.push(k);
    o.push(m);
}

pub fn out_action(a: &TriggerAction<VInstant>, o: &mut Toks) {
    match a {
        TriggerAction::Cancel { machine, timer } => {
            o.extend_from_slice(&[0, machine.into_raw() as u64, timer_code(timer), 0, 0, 0])
        }
        TriggerAction::SendPadding {
            timeout,
            bypass,
            replace,
            machine,
        } => o.extend_from_slice(&[
            1,
            machine.into_raw() as u64,
            timeout.0,
            0,
            *bypass as u64,
            *replace as u64,
        ]),
        TriggerAction::BlockOutgoing {
            timeout,
            duration,
            bypass,
            replace,
            machine,
        } => o.extend_from_slice(&[
            2,
            machine.into_raw() as u64,
            timeout.0,
            duration.0,
            *bypass as u64,
            *replace as u64,
        ]),
        TriggerAction::UpdateTimer {
            duration,
            replace,
            machine,
        } => o.extend_from_slice(&[3, machine.into_raw() as u64, 0, duration.0, 0, *replace as u64]),
    }
}

pub fn out_state(
    snap: &Snapshot<VInstant, VDuration>,
    steps: u64,
    pos: u64,
    o: &mut Toks,
) {
    o.extend_from_slice(&[
        steps,
        pos,
        snap.normal_sent_packets,
        snap.padding_sent_packets,
        snap.blocking_duration.0,
        snap.blocking_active as u64,
        snap.blocking_started.0,
        snap.signal_pending,
        snap.machines.len() as u64,
    ]);
    for (i, m) in snap.machines.iter().enumerate() {
        o.extend_from_slice(&[
            m.current_state as u64,
            m.state_limit,
            m.padding_sent,
            m.normal_sent,
            m.blocking_duration.0,
            m.counter_a,
            m.counter_b,
            m.counter_zeroed_once.0 as u64,
            m.counter_zeroed_once.1 as u64,
            snap.actions_set[i] as u64,
        ]);
    }
}

pub fn hex_line(prefix: Option<usize>, toks: &[u64]) -> String {
    let mut s = String::with_capacity(toks.len() * 6 + 8);
    if let Some(p) = prefix {
        s.push_str(&p.to_string());
    }
    for (i, t) in toks.iter().enumerate() {
        if i > 0 || prefix.is_some() {
            s.push(' ');
        }
        s.push_str(&format!("{:x}", t));
    }
    s
}
