//! The simulator monitors (C15-C19; C19 by default) on LONG runs (tens of thousands of simulator iterations), on the implementation only: the model run
//! is fuelled for 6000 iterations, and sizes matter to the code (pre-allocation estimates, window buffers).
//! A perpetual padder and a periodic timer keep the simulation going after the one-packet trace is used up;
//! the C19 monitor (same seed twice, time never backwards, bounds respected, the three filtered runs are the
//! projections of the unfiltered one) is evaluated for trace-length bounds below and above 2^16 and without.
use crate::genm::const_dist;
use crate::rng::SplitMix64;
use crate::sim::SimCase;
use enum_map::enum_map;
use maybenot::action::Action;
use maybenot::event::Event;
use maybenot::state::{State, Trans};
use maybenot::Machine;
use std::io::Write;

fn looping(first: Event, again: Event, action: Action) -> Machine {
    let mut t0 = enum_map! { _ => vec![] };
    t0[first] = vec![Trans(1, 1.0)];
    let mut t1 = enum_map! { _ => vec![] };
    t1[again] = vec![Trans(1, 1.0)];
    let s0 = State::new(t0);
    let mut s1 = State::new(t1);
    s1.action = Some(action);
    Machine::new(u64::MAX, 0.0, u64::MAX, 0.0, vec![s0, s1]).unwrap()
}

pub fn run(prop: &str, seed: u64, n: usize, out: &str) {
    std::fs::create_dir_all(out).unwrap();
    let mut meta = std::io::BufWriter::new(std::fs::File::create(format!("{}/meta.txt", out)).unwrap());
    let mut r = SplitMix64::new(seed ^ 0x1019);
    let mut viol = 0usize;
    let mut sizes: Vec<(usize, usize, usize)> = vec![];
    for i in 0..n {
        let pad_us = *r.pick(&[1.0, 2.0, 5.0]);
        let padder = looping(
            Event::NormalSent,
            Event::PaddingSent,
            Action::SendPadding { bypass: r.chance(1, 2), replace: r.chance(1, 2), timeout: const_dist(pad_us), limit: None },
        );
        let timer = looping(Event::NormalSent, Event::TimerEnd, Action::UpdateTimer { replace: true, duration: const_dist(*r.pick(&[3.0, 7.0])), limit: None });
        let echo = looping(Event::TunnelRecv, Event::PaddingSent, Action::SendPadding { bypass: false, replace: false, timeout: const_dist(*r.pick(&[4.0, 9.0])), limit: None });
        // bounds around 2^16 recorded events, and none
        let (max_trace, max_iter) = [(0usize, 70_000usize), (100_000, 80_000), (70_000, 90_000), (66_000, 120_000)][i % 4];
        // a periodic blocker (re-arms on its own BlockingEnd), so that the long runs also exercise blocking
        let blocker = looping(
            Event::NormalSent,
            Event::BlockingEnd,
            Action::BlockOutgoing { bypass: r.chance(1, 2), replace: r.chance(1, 2), timeout: const_dist(*r.pick(&[2.0, 6.0])), duration: const_dist(*r.pick(&[3.0, 5.0, 11.0])), limit: None },
        );
        let mut mc = vec![padder, timer];
        if i % 2 == 1 {
            mc.push(blocker);
        }
        let c = SimCase {
            mc,
            ms: if r.chance(1, 2) { vec![echo] } else { vec![] },
            fr: [1.0, 1.0, 1.0, 1.0],
            delay_ns: *r.pick(&[1_000u64, 10_000]),
            pps: None,
            via_parse: true,
            trace: vec![(0, true)],
            max_trace,
            max_iter,
            cont: true,
            only_client: false,
            only_network: false,
            seed: r.next(),
        };
        let found = crate::simprops::monitor(prop, &c);
        let len = crate::sim::run_sim(&c).out.map(|t| t.len()).unwrap_or(0);
        sizes.push((max_trace, max_iter, len));
        for f in found.iter().filter(|f| f.known.is_none()).take(1) {
            viol += 1;
            writeln!(meta, "violation case={} long run (max_trace_length={}, max_sim_iterations={}, {} events recorded): {}", i, max_trace, max_iter, len, f.msg).unwrap();
        }
    }
    writeln!(meta, "summary cases={} nontrivial={} violations={} max_trace/max_iter/recorded={:?}", n, sizes.iter().filter(|s| s.2 > 65536).count(), viol, sizes).unwrap();
}
