//! Deterministic random sources: SplitMix64 for every generator choice, and a
//! scripted RngCore handed to the framework (a prefix of chosen words followed
//! by a SplitMix64 stream).
use rand_core::{impls, Error, RngCore};

#[derive(Clone, Debug)]
pub struct SplitMix64(pub u64);

impl SplitMix64 {
    pub fn new(seed: u64) -> Self {
        SplitMix64(seed)
    }
    pub fn next(&mut self) -> u64 {
        self.0 = self.0.wrapping_add(0x9E3779B97F4A7C15);
        let mut z = self.0;
        z = (z ^ (z >> 30)).wrapping_mul(0xBF58476D1CE4E5B9);
        z = (z ^ (z >> 27)).wrapping_mul(0x94D049BB133111EB);
        z ^ (z >> 31)
    }
    /// uniform in [0, n)
    pub fn below(&mut self, n: u64) -> u64 {
        if n == 0 {
            return 0;
        }
        self.next() % n
    }
    pub fn range(&mut self, lo: u64, hi_incl: u64) -> u64 {
        lo + self.below(hi_incl - lo + 1)
    }
    pub fn chance(&mut self, num: u64, den: u64) -> bool {
        self.below(den) < num
    }
    pub fn pick<'a, T>(&mut self, xs: &'a [T]) -> &'a T {
        &xs[self.below(xs.len() as u64) as usize]
    }
    pub fn fork(&mut self) -> SplitMix64 {
        SplitMix64(self.next())
    }
}

/// The RNG handed to the code under test.
#[derive(Clone, Debug)]
pub struct ScriptRng {
    pub script: Vec<u64>,
    pub idx: usize,
    pub tail: SplitMix64,
}

impl ScriptRng {
    pub fn new(script: Vec<u64>, seed: u64) -> Self {
        ScriptRng {
            script,
            idx: 0,
            tail: SplitMix64::new(seed),
        }
    }
}

impl RngCore for ScriptRng {
    fn next_u32(&mut self) -> u32 {
        // like a 64-bit generator: take the high half
        (self.next_u64() >> 32) as u32
    }
    fn next_u64(&mut self) -> u64 {
        if self.idx < self.script.len() {
            let v = self.script[self.idx];
            self.idx += 1;
            v
        } else {
            self.tail.next()
        }
    }
    fn fill_bytes(&mut self, dest: &mut [u8]) {
        impls::fill_bytes_via_next(self, dest)
    }
    fn try_fill_bytes(&mut self, dest: &mut [u8]) -> Result<(), Error> {
        self.fill_bytes(dest);
        Ok(())
    }
}

/// A random source that notes, for every 64-bit word it hands out, which machine the framework was
/// stepping (the machine of the most recent `transition` entry in the verif hook's log; `None` while the
/// framework is being constructed). Used by the C10 tie to feed a machine running alone exactly the random
/// words it received next to its neighbours. It drains the hook's recorder on every word, so runs made with
/// it are compared on their returned actions only.
pub struct TagRng {
    pub inner: ScriptRng,
    pub st: std::rc::Rc<std::cell::RefCell<TagState>>,
}

#[derive(Default, Debug)]
pub struct TagState {
    pub cur: Option<u64>,
    pub words: Vec<(Option<u64>, u64)>,
}

impl RngCore for TagRng {
    fn next_u32(&mut self) -> u32 {
        (self.next_u64() >> 32) as u32
    }
    fn next_u64(&mut self) -> u64 {
        let (_, log, _) = maybenot::verif::take();
        let mut st = self.st.borrow_mut();
        for (tag, a, _) in log {
            if tag == maybenot::verif::LOG_TRANS {
                st.cur = Some(a);
            }
        }
        let w = self.inner.next_u64();
        let cur = st.cur;
        st.words.push((cur, w));
        w
    }
    fn fill_bytes(&mut self, dest: &mut [u8]) {
        impls::fill_bytes_via_next(self, dest)
    }
    fn try_fill_bytes(&mut self, dest: &mut [u8]) -> Result<(), Error> {
        self.fill_bytes(dest);
        Ok(())
    }
}

/// Replays a fixed list of words; notes when it is asked for more than it has.
pub struct ReplayRng {
    pub words: Vec<u64>,
    pub st: std::rc::Rc<std::cell::RefCell<(usize, bool)>>, // (words handed out, asked beyond the end)
}

impl RngCore for ReplayRng {
    fn next_u32(&mut self) -> u32 {
        (self.next_u64() >> 32) as u32
    }
    fn next_u64(&mut self) -> u64 {
        let mut st = self.st.borrow_mut();
        if st.0 < self.words.len() {
            st.0 += 1;
            self.words[st.0 - 1]
        } else {
            st.1 = true;
            0x8000_0000_0000_0000
        }
    }
    fn fill_bytes(&mut self, dest: &mut [u8]) {
        impls::fill_bytes_via_next(self, dest)
    }
    fn try_fill_bytes(&mut self, dest: &mut [u8]) -> Result<(), Error> {
        self.fill_bytes(dest);
        Ok(())
    }
}
