//! Monitors of the simulator properties C14-C19 over the returned trace.
//! They are search tools: given a case they decide whether the REAL simulator
//! violates the property on it (the theorems and the model tie do the
//! deciding on the unchanged tree). C16-C18 recover the actions the simulator
//! acted on by replaying the trace through fresh frameworks seeded like the
//! simulator's.
use crate::sim::{run_sim, OutEv, SimCase};
use maybenot::{Framework, Machine, Timer, TriggerAction};
use rand_core::SeedableRng;
use rand_xoshiro::Xoshiro256StarStar;
use std::collections::BTreeMap;
use std::time::{Duration, Instant};

#[derive(Clone)]
pub struct Finding {
    /// Some(id) when the failing input belongs to a recorded known-finding class
    pub known: Option<&'static str>,
    pub msg: String,
}

/// findings beyond the first few of a run are not recorded (they only cost memory)
fn cap_push(v: &mut Vec<Finding>, f: Finding) {
    if v.len() < 6 || (f.known.is_none() && v.iter().all(|x| x.known.is_some())) {
        v.push(f);
    }
}

fn viol(msg: String) -> Finding {
    Finding { known: None, msg }
}

const K_NORMAL_RECV: u64 = 0;
const K_TUNNEL_RECV: u64 = 2;
const K_NORMAL_SENT: u64 = 3;
const K_PADDING_SENT: u64 = 4;
const K_TUNNEL_SENT: u64 = 5;
const K_BLOCKING_BEGIN: u64 = 6;
const K_BLOCKING_END: u64 = 7;
const K_TIMER_BEGIN: u64 = 8;
const K_TIMER_END: u64 = 9;

fn unfiltered(c: &SimCase) -> SimCase {
    SimCase { only_client: false, only_network: false, ..c.clone() }
}

fn is_activity(e: &OutEv) -> bool {
    e.kind == K_TUNNEL_SENT || e.kind == K_TUNNEL_RECV
}

/// actions returned for every event of an unfiltered trace, recovered by
/// replaying it per side through fresh frameworks (same seeds as SimState::new)
pub fn replay(c: &SimCase, tr: &[OutEv]) -> Result<Vec<Vec<TriggerAction>>, String> {
    let base = Instant::now() + Duration::from_secs(7200);
    let at = |rel: i128| if rel >= 0 { base + Duration::from_nanos(rel as u64) } else { base - Duration::from_nanos((-rel) as u64) };
    let t0 = c.trace.iter().map(|(t, cl)| if *cl { *t as i128 } else { *t as i128 - c.delay_ns as i128 }).min().unwrap();
    let mk = |ms: &Vec<Machine>, p: f64, b: f64, seed: u64| Framework::new(ms.clone(), p, b, at(t0), Xoshiro256StarStar::seed_from_u64(seed)).map_err(|e| format!("{}", e));
    let mut fc = mk(&c.mc, c.fr[0], c.fr[1], c.seed)?;
    let mut fs = mk(&c.ms, c.fr[2], c.fr[3], c.seed.wrapping_add(1))?;
    let mut out = Vec::with_capacity(tr.len());
    for e in tr {
        let f = if e.client { &mut fc } else { &mut fs };
        let acts: Vec<TriggerAction> = f.trigger_events(&[e.ev.clone()], at(e.t)).cloned().collect();
        out.push(acts);
    }
    Ok(out)
}

fn dns(d: &Duration) -> i128 {
    d.as_nanos() as i128
}

#[derive(Default, Clone)]
struct SideSpec {
    /// action timer per machine: (action, due, issued)
    slot: BTreeMap<usize, (TriggerAction, i128)>,
    /// actions overwritten or cancelled at the very instant they were due: they
    /// may already have fired inside the simulator
    slot_tie: Vec<(usize, TriggerAction, i128)>,
    /// internal timer expiry per machine
    timer: BTreeMap<usize, i128>,
    timer_tie: Vec<(usize, i128)>,
    /// UpdateTimer actions of the current instant not yet answered by a TimerBegin: (machine, time, required)
    ut: Vec<(usize, i128, bool)>,
    /// blocking
    active: bool,
    until: i128,
    bypassable: bool,
    /// the current blocking involves a zero-duration action (known finding F8)
    zero_dur: bool,
}

#[derive(Clone)]
pub struct Checks {
    /// the search over tie resolutions was cut short without finding a consistent one: no verdict
    pub undecided: bool,
    pub c16: Vec<Finding>,
    pub c17: Vec<Finding>,
    pub c18: Vec<Finding>,
}

/// The trace checked against the replayed actions. Where an action was
/// overwritten or cancelled at the very instant it was due, the trace does not
/// say whether it had fired just before: every resolution is explored and the
/// trace is accepted when one of them is consistent (the findings of the best
/// resolution are returned). `which` selects the property judged.
pub fn check_actions(c: &SimCase, tr: &[OutEv], acts: &[Vec<TriggerAction>], which: &str) -> Checks {
    let pick = |ch: &Checks| -> usize {
        let v = match which {
            "C16" => &ch.c16,
            "C17" => &ch.c17,
            _ => &ch.c18,
        };
        v.iter().filter(|f| f.known.is_none()).count() * 1000 + v.len()
    };
    let start = (0usize, [SideSpec::default(), SideSpec::default()], Checks { undecided: false, c16: vec![], c17: vec![], c18: vec![] }, None::<usize>);
    // backtracking: a resolution is abandoned at its first finding outside the known classes
    let mut stack = vec![start.clone()];
    let mut explored = 0usize;
    let mut truncated = false;
    while let Some((i0, sides, ch, forced)) = stack.pop() {
        explored += 1;
        if explored > 600 {
            truncated = true;
            break;
        }
        let before = stack.len();
        let (done, aborted) = run_from(c, tr, acts, i0, sides, ch, forced, &mut stack, Some(which));
        if stack.len() >= 48 && stack.len() >= before {
            // alternatives may have been dropped (see run_from)
            truncated = true;
        }
        if !aborted && pick(&done) < 1000 {
            return done;
        }
    }
    // no consistent resolution found
    let mut scratch = vec![];
    let mut d = run_from(c, tr, acts, start.0, start.1, start.2, start.3, &mut scratch, None).0;
    if truncated {
        // the search was cut short: this trace gets no verdict rather than a possibly false one
        d.undecided = true;
        d.c16.retain(|f| f.known.is_some());
        d.c17.retain(|f| f.known.is_some());
        d.c18.retain(|f| f.known.is_some());
    }
    d
}

#[allow(clippy::too_many_arguments)]
fn run_from(
    c: &SimCase,
    tr: &[OutEv],
    acts: &[Vec<TriggerAction>],
    i0: usize,
    mut sides: [SideSpec; 2],
    mut ch: Checks,
    mut forced: Option<usize>,
    stack: &mut Vec<(usize, [SideSpec; 2], Checks, Option<usize>)>,
    abort_on: Option<&str>,
) -> (Checks, bool) {
    let nm = [c.mc.len(), c.ms.len()];
    for (i, e) in tr.iter().enumerate().skip(i0) {
        if let Some(w) = abort_on {
            let v = match w {
                "C16" => &ch.c16,
                "C17" => &ch.c17,
                _ => &ch.c18,
            };
            if v.iter().any(|f| f.known.is_none()) {
                return (ch, true);
            }
        }
        let si = if e.client { 0 } else { 1 };
        let sname = if e.client { "client" } else { "server" };
        let snapshot = if matches!(e.kind, K_PADDING_SENT | K_BLOCKING_BEGIN) && forced.is_none() { Some((sides.clone(), ch.clone())) } else { None };
        let mut alt: Vec<usize> = vec![];
        // simulated time is now e.t: nothing that was due strictly earlier may still be pending
        for (k, sd) in sides.iter_mut().enumerate() {
            let kn = if k == 0 { "client" } else { "server" };
            let late: Vec<usize> = sd.slot.iter().filter(|(_, (_, due))| *due < e.t).map(|(m, _)| *m).collect();
            for m in late {
                let (a, due) = sd.slot.remove(&m).unwrap();
                cap_push(&mut ch.c17, viol(format!("{} machine {} action {:?} due at {} did not fire before simulated time reached {} (event #{})", kn, m, a, due, e.t, i)));
            }
            let late: Vec<usize> = sd.timer.iter().filter(|(_, exp)| **exp < e.t).map(|(m, _)| *m).collect();
            for m in late {
                let exp = sd.timer.remove(&m).unwrap();
                cap_push(&mut ch.c18, viol(format!("{} machine {} internal timer expiring at {} got no TimerEnd before simulated time reached {} (event #{})", kn, m, exp, e.t, i)));
            }
            let mut keep = vec![];
            for (m, t, req) in sd.ut.drain(..) {
                if t < e.t {
                    if req {
                        cap_push(&mut ch.c18, viol(format!("{} machine {} UpdateTimer at {} set the timer but no TimerBegin was reported at that instant (event #{})", kn, m, t, i)));
                    }
                } else {
                    keep.push((m, t, req));
                }
            }
            sd.ut = keep;
            sd.slot_tie.retain(|x| x.2 >= e.t);
            sd.timer_tie.retain(|x| x.1 >= e.t);
            if sd.active && sd.until < e.t {
                let f = format!("{} blocking expiring at {} got no BlockingEnd before simulated time reached {} (event #{})", kn, sd.until, e.t, i);
                cap_push(&mut ch.c16, if sd.zero_dur { Finding { known: Some("F8"), msg: f } } else { viol(f) });
                sd.active = false;
                sd.zero_dur = false;
            }
        }
        let sd = &mut sides[si];
        match e.kind {
            K_PADDING_SENT | K_BLOCKING_BEGIN => {
                let m = e.machine as usize;
                let want_pad = e.kind == K_PADDING_SENT;
                let mut fired: Option<TriggerAction> = None;
                let matches = |a: &TriggerAction, due: i128| {
                    due == e.t
                        && match a {
                            TriggerAction::SendPadding { .. } => want_pad,
                            TriggerAction::BlockOutgoing { .. } => !want_pad,
                            _ => false,
                        }
                };
                // candidates: the pending action, and actions overwritten or cancelled at the very
                // instant they were due (they may have fired inside the simulator just before)
                let mut cands: Vec<Option<usize>> = sd.slot_tie.iter().enumerate().filter(|(_, x)| x.0 == m && matches(&x.1, x.2)).map(|(p, _)| Some(p)).collect();
                if sd.slot.get(&m).map_or(false, |(a, due)| matches(a, *due)) {
                    cands.insert(0, None);
                }
                let choice = match forced.take() {
                    Some(k) => k,
                    None => {
                        for k in 1..cands.len() {
                            alt.push(k);
                        }
                        0
                    }
                };
                if let Some(cd) = cands.get(choice) {
                    fired = match cd {
                        None => sd.slot.remove(&m).map(|x| x.0),
                        Some(p) => Some(sd.slot_tie.remove(*p).1),
                    };
                }
                match &fired {
                    None => cap_push(&mut ch.c17, viol(format!(
                        "{} {} for machine {} at {} (event #{}) is not the completion of the machine's pending action (pending: {:?})",
                        sname,
                        if want_pad { "PaddingSent" } else { "BlockingBegin" },
                        m,
                        e.t,
                        i,
                        sd.slot.get(&m)
                    ))),
                    Some(TriggerAction::SendPadding { bypass, replace, .. }) => {
                        if (e.bypass, e.replace) != (*bypass, *replace) {
                            cap_push(&mut ch.c17, viol(format!("{} PaddingSent of machine {} at {} carries flags bypass={} replace={} but the action said bypass={} replace={}", sname, m, e.t, e.bypass, e.replace, bypass, replace)));
                        }
                    }
                    Some(TriggerAction::BlockOutgoing { duration, bypass, replace, .. }) => {
                        let new = e.t + dns(duration);
                        let zero = dns(duration) == 0;
                        if !sd.active {
                            sd.active = true;
                            sd.until = new;
                            sd.bypassable = *bypass;
                            sd.zero_dur = zero;
                        } else if *replace {
                            sd.until = new;
                            sd.bypassable = *bypass;
                            sd.zero_dur = sd.zero_dur || zero;
                        } else if new > sd.until {
                            sd.until = new;
                            sd.bypassable = sd.bypassable && *bypass;
                        }
                    }
                    _ => {}
                }
            }
            K_BLOCKING_END => {
                // F8: a zero-duration BlockOutgoing due at this instant (its BlockingBegin is reported after the end)
                let zero_block = |a: &TriggerAction, due: i128| matches!(a, TriggerAction::BlockOutgoing { duration, .. } if dns(duration) == 0) && due == e.t;
                let pending_zero = sd.zero_dur
                    || sd.slot.values().any(|(a, due)| zero_block(a, *due))
                    || sd.slot_tie.iter().any(|x| zero_block(&x.1, x.2));
                let mk = |f: String| if pending_zero { Finding { known: Some("F8"), msg: f } } else { viol(f) };
                if !sd.active {
                    cap_push(&mut ch.c16, mk(format!("{} BlockingEnd at {} (event #{}) without active blocking", sname, e.t, i)));
                } else {
                    if sd.until != e.t {
                        cap_push(&mut ch.c16, mk(format!("{} BlockingEnd at {} (event #{}) but the blocking expires at {}", sname, e.t, i, sd.until)));
                    }
                    sd.active = false;
                    sd.zero_dur = false;
                }
            }
            K_TUNNEL_SENT => {
                // a BlockingBegin reported later at this same instant may already be in force
                let begin_follows = tr[i + 1..].iter().take_while(|x| x.t == e.t).any(|x| x.client == e.client && x.kind == K_BLOCKING_BEGIN)
                    || sd.slot.values().any(|(a, due)| matches!(a, TriggerAction::BlockOutgoing { .. }) && *due == e.t)
                    || sd.slot_tie.iter().any(|x| matches!(x.1, TriggerAction::BlockOutgoing { .. }) && x.2 == e.t);
                if sd.active && !(sd.bypassable && e.bypass) && e.t < sd.until && !begin_follows {
                    let f = format!(
                        "{} TunnelSent (padding={} bypass={}) at {} (event #{}) while blocking is active until {} (bypassable={})",
                        sname, e.pad, e.bypass, e.t, i, sd.until, sd.bypassable
                    );
                    cap_push(&mut ch.c16, if sd.zero_dur {
                        Finding { known: Some("F8"), msg: f }
                    } else {
                        viol(f)
                    });
                }
            }
            K_TIMER_BEGIN => {
                let m = e.machine as usize;
                match sd.ut.iter().position(|x| x.0 == m && x.1 == e.t) {
                    Some(p) => {
                        // prefer answering a required one
                        let p = sd.ut.iter().position(|x| x.0 == m && x.1 == e.t && x.2).unwrap_or(p);
                        sd.ut.remove(p);
                    }
                    None => cap_push(&mut ch.c18, viol(format!("{} TimerBegin for machine {} at {} (event #{}) without an UpdateTimer action at that instant", sname, m, e.t, i))),
                }
            }
            K_TIMER_END => {
                let m = e.machine as usize;
                if sd.timer.get(&m) == Some(&e.t) {
                    sd.timer.remove(&m);
                } else if let Some(p) = sd.timer_tie.iter().position(|x| x.0 == m && x.1 == e.t) {
                    sd.timer_tie.remove(p);
                } else {
                    cap_push(&mut ch.c18, viol(format!("{} TimerEnd for machine {} at {} (event #{}) but its timer is {:?}", sname, m, e.t, i, sd.timer.get(&m))));
                }
            }
            _ => {}
        }
        if let Some((s0, c0)) = snapshot {
            for k in alt {
                // bounded backtracking: beyond this many open alternatives the default resolution stands
                if stack.len() < 48 {
                    stack.push((i, s0.clone(), c0.clone(), Some(k)));
                }
            }
        }
        let sd = &mut sides[si];
        // An action or timer due at this very instant that is overwritten or cancelled now may already
        // have fired inside the simulator only if this event was produced after the firing: a BlockingEnd,
        // a released TunnelSent, or what those cause at the same instant (zero delay). A base NormalSent,
        // a completion or a timer event of this instant was processed before anything due now could fire.
        let tie_ok = matches!(e.kind, K_BLOCKING_END | K_TUNNEL_SENT | K_TUNNEL_RECV | K_NORMAL_RECV | 1);
        // the actions returned for this event
        for a in &acts[i] {
            match a {
                TriggerAction::Cancel { machine, timer } => {
                    let m = machine.into_raw();
                    if m >= nm[si] {
                        continue;
                    }
                    if matches!(timer, Timer::Action | Timer::All) {
                        if let Some((a0, due)) = sd.slot.remove(&m) {
                            if due == e.t && tie_ok {
                                sd.slot_tie.push((m, a0, due));
                            }
                        }
                    }
                    if matches!(timer, Timer::Internal | Timer::All) {
                        if let Some(exp) = sd.timer.remove(&m) {
                            if exp == e.t && tie_ok {
                                sd.timer_tie.push((m, exp));
                            }
                        }
                    }
                }
                TriggerAction::SendPadding { timeout, machine, .. } | TriggerAction::BlockOutgoing { timeout, machine, .. } => {
                    let m = machine.into_raw();
                    if let Some((a0, due)) = sd.slot.insert(m, (a.clone(), e.t + dns(timeout))) {
                        if due == e.t && tie_ok {
                            sd.slot_tie.push((m, a0, due));
                        }
                    }
                }
                TriggerAction::UpdateTimer { duration, replace, machine } => {
                    let m = machine.into_raw();
                    let new = e.t + dns(duration);
                    let cur = sd.timer.get(&m).cloned();
                    let sets = *replace || cur.is_none() || new > cur.unwrap();
                    if sets {
                        if let Some(exp) = cur {
                            if exp == e.t && tie_ok {
                                sd.timer_tie.push((m, exp));
                            }
                        }
                        sd.timer.insert(m, new);
                    }
                    sd.ut.push((m, e.t, sets));
                }
            }
        }
    }
    (ch, false)
}

fn proj(tr: &[OutEv], only_client: bool, only_network: bool) -> Vec<OutEv> {
    tr.iter().filter(|e| (!only_network || is_activity(e)) && (!only_client || e.client)).cloned().collect()
}

/// the multiset of times of one event kind on one side
fn times(tr: &[OutEv], client: bool, kind: u64, pad: Option<bool>) -> Vec<i128> {
    let mut v: Vec<i128> = tr.iter().filter(|e| e.client == client && e.kind == kind && pad.map_or(true, |p| e.pad == p)).map(|e| e.t).collect();
    v.sort();
    v
}

/// the unfiltered trace with the replayed actions, for replay files
pub fn describe(c: &SimCase) -> Vec<String> {
    let cu = unfiltered(c);
    let mut l = vec![];
    let real = run_sim(&cu);
    if let Ok(tr) = real.out {
        maybenot::verif::arm(0);
        let acts = replay(&cu, &tr).unwrap_or_default();
        let (tp, lg, _) = maybenot::verif::take();
        maybenot::verif::disarm();
        if let Ok(f) = std::env::var("VHARNESS_DUMPLOG") {
            std::fs::write(f, real.log.iter().map(|x| format!("{} {} {}\n", x.0, x.1, x.2)).collect::<String>()).unwrap();
        }
        let kk = lg.iter().zip(real.log.iter()).position(|(a, b)| a != b);
        l.push(format!("logs: real {} replay {} first difference at {:?}: real {:?} replay {:?}", real.log.len(), lg.len(), kk, kk.map(|k| &real.log[k.saturating_sub(3)..(k + 4).min(real.log.len())]), kk.map(|k| &lg[k.saturating_sub(3)..(k + 4).min(lg.len())])));
        let rt: Vec<u64> = tp.iter().map(|x| if x.0 == maybenot::verif::TAPE_U { ((f32::from_bits(x.1 as u32) * 8388608.0) as u64).min((1 << 23) - 1) } else { x.1 }).collect();
        let k = rt.iter().zip(real.tape.iter()).position(|(a, b)| a != b);
        l.push(format!("tapes: real {} draws, replay {} draws, first difference at {:?}", real.tape.len(), rt.len(), k));
        for (i, e) in tr.iter().enumerate() {
            l.push(format!("#{} t={} {} {:?} pad={} bypass={} replace={} -> {:?}", i, e.t, if e.client { "client" } else { "server" }, e.ev, e.pad, e.bypass, e.replace, acts.get(i).cloned().unwrap_or_default()));
        }
    }
    l
}


/// the three filtered runs against the projections of the unfiltered run without a length bound
fn check_projections(c: &SimCase, cu: &SimCase, out: &mut Vec<Finding>) {
    let c0 = SimCase { max_trace: 0, ..cu.clone() };
    let full = match run_sim(&c0).out {
        Ok(t) => t,
        Err(m) => {
            out.push(viol(format!("sim_advanced panicked: {}", m)));
            return;
        }
    };
    for (oc, on) in [(true, false), (false, true), (true, true)] {
        let cf = SimCase { only_client: oc, only_network: on, ..c.clone() };
        match run_sim(&cf).out {
            Err(m) => out.push(viol(format!("filtered run panicked: {}", m))),
            Ok(f) => {
                let mut want = proj(&full, oc, on);
                if cf.max_trace > 0 {
                    want.truncate(cf.max_trace);
                }
                if f != want {
                    out.push(viol(format!("only_client_events={} only_network_activity={}: the filtered trace ({} events) is not the projection of the unfiltered one ({} events)", oc, on, f.len(), want.len())));
                }
            }
        }
    }
}

pub fn monitor(prop: &str, c: &SimCase) -> Vec<Finding> {
    let mut out = vec![];
    let cu = unfiltered(c);
    let ru = run_sim(&cu);
    let tr = match &ru.out {
        Ok(t) => t.clone(),
        Err(m) => {
            if prop == "C19" {
                let known = None;
                out.push(Finding { known, msg: format!("sim_advanced panicked: {}", m) });
            }
            return out;
        }
    };
    let complete = !cu.cont && (cu.max_trace == 0 || tr.len() < cu.max_trace) && (cu.max_iter == 0 || tr.len() < cu.max_iter);
    let d = c.delay_ns as i128;
    let sends: Vec<i128> = {
        let mut v: Vec<i128> = c.trace.iter().filter(|x| x.1).map(|x| x.0 as i128).collect();
        v.sort();
        v
    };
    let recvs: Vec<i128> = {
        let mut v: Vec<i128> = c.trace.iter().filter(|x| !x.1).map(|x| x.0 as i128).collect();
        v.sort();
        v
    };
    match prop {
        "C14" => {
            // no machines: the tunnel events are exactly the trace
            let sub = |a: &Vec<i128>, b: &Vec<i128>| {
                // a is a sub-multiset of b (both sorted)
                let mut j = 0;
                for x in a {
                    while j < b.len() && b[j] < *x {
                        j += 1;
                    }
                    if j >= b.len() || b[j] != *x {
                        return false;
                    }
                    j += 1;
                }
                true
            };
            let shift = |v: &Vec<i128>, k: i128| v.iter().map(|x| x + k).collect::<Vec<_>>();
            let checks: [(&str, Vec<i128>, Vec<i128>); 4] = [
                ("client TunnelSent", times(&tr, true, K_TUNNEL_SENT, None), sends.clone()),
                ("client TunnelRecv", times(&tr, true, K_TUNNEL_RECV, None), recvs.clone()),
                ("server TunnelRecv", times(&tr, false, K_TUNNEL_RECV, None), shift(&sends, d)),
                ("server TunnelSent", times(&tr, false, K_TUNNEL_SENT, None), shift(&recvs, -d)),
            ];
            for (what, got, want) in checks.iter() {
                let ok = if complete { got == want } else { sub(got, want) };
                if !ok {
                    out.push(viol(format!("{} times {:?} differ from the trace's {:?} (run complete: {})", what, &got[..got.len().min(12)], &want[..want.len().min(12)], complete)));
                }
            }
            if let Some(e) = tr.iter().find(|e| e.pad || !matches!(e.kind, K_NORMAL_RECV | K_TUNNEL_RECV | K_NORMAL_SENT | K_TUNNEL_SENT)) {
                out.push(viol(format!("event of kind {} (padding={}) at {} although no machine runs", e.kind, e.pad, e.t)));
            }
            // via sim() as well
            if c.max_iter == 0 && !c.only_client {
                let rs = crate::sim::run_sim_plain(c);
                let c0 = SimCase { max_trace: 0, ..cu.clone() };
                let mut want = proj(&run_sim(&c0).out.unwrap_or_default(), false, c.only_network);
                if c.max_trace > 0 {
                    want.truncate(c.max_trace);
                }
                if rs.out.as_ref().ok() != Some(&want) {
                    out.push(viol("sim() and sim_advanced() disagree".to_string()));
                }
            }
            // every combination of output filters shows the corresponding part of the same trace
            check_projections(c, &cu, &mut out);
        }
        "C15" => {
            if tr.windows(2).any(|w| w[0].t > w[1].t) {
                out.push(viol("returned trace is not ordered by time".to_string()));
            }
            if let Err(m) = crate::sim::ordered_with_integration(c) {
                out.push(viol(m));
            }
            // every TunnelRecv matches one earlier TunnelSent of the other side, same kind, >= delay before
            for client in [true, false] {
                for pad in [false, true] {
                    let mut sent: std::collections::VecDeque<i128> = Default::default();
                    for e in &tr {
                        if e.kind == K_TUNNEL_SENT && e.client != client && e.pad == pad {
                            sent.push_back(e.t);
                        }
                        if e.kind == K_TUNNEL_RECV && e.client == client && e.pad == pad {
                            match sent.front() {
                                Some(s) if *s + d <= e.t => {
                                    sent.pop_front();
                                }
                                _ => out.push(viol(format!(
                                    "{} TunnelRecv (padding={}) at {} has no unmatched earlier TunnelSent of the other side at least {} ns before (oldest unmatched: {:?})",
                                    if client { "client" } else { "server" },
                                    pad,
                                    e.t,
                                    d,
                                    sent.front()
                                ))),
                            }
                        }
                    }
                }
            }
            for (client, share) in [(true, sends.len()), (false, recvs.len())] {
                let ns = times(&tr, client, K_NORMAL_SENT, None).len();
                let ts = times(&tr, client, K_TUNNEL_SENT, Some(false)).len();
                let nr = times(&tr, !client, K_NORMAL_RECV, None).len();
                let trc = times(&tr, !client, K_TUNNEL_RECV, Some(false)).len();
                let who = if client { "client" } else { "server" };
                if ns > share || ts > share || trc > ts || nr > trc || ts > ns {
                    out.push(viol(format!("{} normal packets created or duplicated: share {} NormalSent {} TunnelSent {} peer TunnelRecv {} peer NormalRecv {}", who, share, ns, ts, trc, nr)));
                }
                if complete && (ts != share || trc != share) {
                    out.push(viol(format!("{} sent {} normal packets (peer received {}) of its share {} although the run ended with all normal packets processed", who, ts, trc, share)));
                }
            }
        }
        "C16" | "C17" | "C18" => match replay(&cu, &tr) {
            Err(e) => out.push(viol(format!("replay failed: {}", e))),
            Ok(acts) => {
                let ch = check_actions(&cu, &tr, &acts, prop);
                if ch.undecided {
                    out.push(Finding { known: Some("undecided"), msg: "too many same-instant ties to resolve: no verdict for this trace".to_string() });
                }
                out.extend(match prop {
                    "C16" => ch.c16,
                    "C17" => ch.c17,
                    _ => ch.c18,
                });
            }
        },
        "C19" => {
            // reproducible
            let r2 = run_sim(&cu);
            if r2.out.as_ref().ok() != Some(&tr) {
                out.push(viol("two runs with the same seed returned different traces".to_string()));
            }
            if tr.windows(2).any(|w| w[0].t > w[1].t) {
                out.push(viol("simulated time moved backwards in the returned trace".to_string()));
            }
            if (cu.max_trace > 0 && tr.len() > cu.max_trace) || (cu.max_iter > 0 && tr.len() > cu.max_iter) {
                out.push(viol(format!("trace of {} events exceeds the bounds max_trace_length={} max_sim_iterations={}", tr.len(), cu.max_trace, cu.max_iter)));
            }
            check_projections(c, &cu, &mut out);
        }
        _ => {}
    }
    out
}
