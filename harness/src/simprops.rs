//! Monitors of the simulator properties C14-C19 over the returned trace.
use crate::sim::{SimCase, SimRun};

pub fn monitor(_prop: &str, _c: &SimCase, _run: &SimRun) -> Option<String> {
    None
}
