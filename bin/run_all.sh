#!/bin/bash
# runs every check of the manifest (quick tier by default) on the current tree, one line per property
cd "$(dirname "$0")/.."
tier=${1:-quick}
for i in 01 02 03 04 05 06 07 08 09 10 11 12 13 14 15 16 17 18 19 20; do
  bin/vcheck check C$i --tier $tier 2>&1 | grep -E "^(OK|VIOLATION|KNOWN-FINDING)" | cut -c1-200
done
