#!/usr/bin/env python3
"""Regenerates MANIFEST.json from the table below (keeps it valid and current)."""
import json, os
ROOT = os.path.dirname(os.path.dirname(os.path.abspath(__file__)))

NOTE = ("Trusted: Coq 8.16.1 kernel, Flocq 4.1 (float semantics), extraction (ExtrOcamlBasic only) cross-checked by "
        "vm_compute on a sample, the Rust harness and the verif hook recorder. The theorems are about the executable "
        "Coq model; equality of model and code is checked differentially on generated cases, not proved. "
        "Axioms under Print Assumptions: the four standard-library axioms Flocq/Reals bring in "
        "(sig_not_dec, sig_forall_dec, functional_extensionality_dep, classic).")
TECH = "Coq proof (induction/invariants over an executable Gallina model) + differential correspondence check against the Rust code"

CLAIMS = {
 "C01": ("Theorems C01_total / C01_history: for every validated configuration, invariant state, batch, time value and random tape "
         "trigger_events returns Ok (no panic outcome, fuel never exhausted), re-establishes the invariant and enters transition at most "
         "(events+1)(machines+1)+2*machines times; proved for any clock whose Duration add cannot overflow (the virtual clock). "
         "For the std::time clock: C01_std_only_duration / C01_std_history -- the call returns with the invariant, or panics with exactly the Duration overflow "
         "(known finding F6: forall inputs outside that class the property holds; C01_std_overflow_exists is the witness); never an index, unwrap or fuel failure. "
         "Proved by refinement to a totalised clock. A separate probe exercises F6 on the real code.", "DESIGN.md section 0 and 4, C01"),
 "C02": ("Theorem C02_budget: for every validated configuration, every history (earlier calls may be batches), every event, time value and random tape: "
         "a SendPadding returned by a single-event call for machine i implies, with the NormalSent/PaddingSent reports recounted from the history, "
         "own paddings < allowed_padding_packets, or machine fraction below max_padding_frac (if set) and global fraction below the framework limit (if set), "
         "as exact rational inequalities against the exact value of the f64 limits (Flocq proof of the division/rounding step; guard: < 2^53 packets). "
         "C02_accounting: the counters are a function of the reported events only.", "DESIGN.md section 4, C02"),
 "C03": ("Theorems C03_budget / C03_budget_exact: a BlockOutgoing returned by a single-event call implies (replace flag and blocking active) or blocked time "
         "below allowed_blocked_microsec or blocked share below both limits (if set), the blocked time being the accounting recount acct_hist -- proved to be a "
         "function of the BlockingBegin/BlockingEnd reports and call timestamps only (begin while active / end while inactive ignored, backwards time = 0 elapsed, "
         "ongoing block counted to now). For the microsecond virtual clock the share is the exact rational blocked/elapsed (Flocq proof, values < 2^53 us); "
         "for the crate's std::time clock (C03_budget_std, C03_share_std_tolerance) the share tested is the quotient of two as_secs_f64() values and the exact share is shown to be below the limit times (1 + 2^-50) "
         "(durations < 2^53 s); for any other clock it is the clock's own f64 quotient. One third of the differential cases run on the real std::time clock.", "DESIGN.md section 0 and 4, C03"),
 "C04": ("Theorems C04_contract, C04_one_day, C04_end_absorbing(_call): returned actions name pairwise distinct existing machines, each has the "
         "kind and flags of an action of that machine, every timeout/duration is <= 86_400_000_000 us for every oracle value (Flocq proof "
         "of the clamp, NaN/inf included), and a machine in STATE_END never acts again in any later call of any history.", "DESIGN.md section 4, C04"),
 "C05": ("The executable Coq model of framework.rs is the formal statement of the documented semantics; theorems state its structure "
         "(batch = fold of events + one signal round, machines in index order, clone equality) and that nothing but the inputs and the consumed part of the "
         "random stream matters: C05_tape_local / C05_life (a call, and a whole life from Framework::new, give the same state and actions for every tape agreeing on "
         "the segment they read, positions only grow), C05_tape_suffix (even failing outcomes ignore the tape before the current position). The model is tied to the code by a "
         "whole-state differential (snapshot, actions, step count, internal log after every call) over generated machines x histories "
         "with the implementation's own random draws replayed as the oracle tape.", "DESIGN.md section 4, C05"),

 "C07": ("Theorems C07_limit_gate/_zero_no_action (a limited action passes the limit check only with remaining limit > 0), C07_stay/_no_refresh (over any call "
         "in which machine i does not change state, its limit is exactly the old limit minus the decrements logged for i, floored at 0 -- self-transitions never "
         "refresh, other machines never consume), C07_countdown (decrement, withdrawal of the pending action and immediate LimitReached), C07_refresh, C07_others. "
         "State changes and decrements are read off the ghost log, which the hook log comparison ties to the code.", "DESIGN.md section 4, C07"),
 "C08": ("Theorems C08_update (functional specification of update_counter: saturating increment/decrement/set with 1, a sampled value or the other counter's "
         "pre-transition value; CounterZero raised exactly on non-zero -> zero with that machine's zeroed-once flag unset, before the entered state's action; "
         "precedence of the action scheduled by the CounterZero transition), C08_saturating, C08_once (CounterZero events for machine i plus its unset flags <= 2 "
         "in every call: at most one per counter per machine per call).", "DESIGN.md section 4, C08"),
 "C09": ("Theorems C09_call / C09_at_most_one / C09_signallers / C09_targets over the ghost log: with nobody signalling nothing is delivered; a lone "
         "signaller (however often it signals) is excluded and every other machine index receives exactly one Signal, the signaller receiving one only if "
         "a machine answered during the round; two or more distinct signallers reach every index exactly once; the delivery list never contains a duplicate "
         "and no pending signal survives the call. The log is tied to the code by the hook log comparison.", "DESIGN.md section 4, C09"),

 "C10": ("Theorem C10_solo_any: for EVERY configuration in which no machine can signal, ANY machine at position i (probabilistic transitions, any distributions), every history and tape: there is a list l of draws, "
         "an order-preserving sub-sequence of the tape prefix the combined run consumed (the machine's own draws), such that the machine running alone on the projected history on ANY tape starting with l "
         "consumes exactly l and returns, call by call, the actions it returned in the combined run. Theorem C10_solo: for EVERY configuration, every position i whose machine samples deterministically (probability-1 vectors, constant distributions) and every neighbour set "
         "without signal transitions (neighbours otherwise arbitrary and probabilistic), every history, start time and every PAIR of random tapes: the actions returned for machine i in the "
         "combined run equal, call by call, the actions of the machine running alone on the projected history (events addressed to neighbours mapped to an unknown id), up to its id; "
         "C10_solo_total: both runs exist for valid configurations. Two-run simulation over transition (induction on fuel), built on the frame lemmas C10_step_frame / C10_decrement_frame "
         "and the accounting projection. The differential runs deterministic machines next to arbitrary neighbours and alone, on the implementation and on the model, and re-runs an arbitrary probabilistic machine alone on the real code "
         "with a random source replaying exactly the words it drew next to its neighbours.", "DESIGN.md section 0 and 4, C10"),

 "C12": ("Theorems C12_sound (validate_machine m = true -> WF_machine m, WF stated over real numbers from the documentation: fractions real in [0,1], "
         "probabilities real in (0,1], f32 sums in (0,1], targets in range without duplicates, distribution parameters in their documented domains), "
         "C12_nan_rejected, C12_framework_new (same judgement; a framework from accepted machines and fractions in [0,1] never fails). The model's validators are "
         "compared with Machine::validate, Framework::new, Machine::from_str and Machine::new on adversarial machines.", "DESIGN.md section 4, C12"),

 "C13": ("PARTIAL (the ten rand_distr samplers are third-party code: their result is universally quantified, their termination is not proved). Theorems C13_range "
         "(for every raw sampler value incl. NaN/inf and every start/max, Dist::sample is non-NaN, non-negative and <= max when max > 0 -- Flocq), C13_consumers "
         "(timeouts/durations <= 24 h, limits and counter values within u64), C13_unwrap (constructors cannot fail on validated distributions), C13_uniform_pre, "
         "C13_uniform_progress_partial (the Uniform rejection loop accepts the draw 0). Promptness is explored in child processes under scripted RNG prefixes; two genuine "
         "sampler defects found there (Binomial hang F11, Binomial panic F12) are recorded known findings.", "DESIGN.md section 4, C13"),

 "C07": ("Theorems C07_limit_gate/_zero_no_action (a limited action passes the limit check only with remaining limit > 0), C07_stay/_no_refresh (over any call "
         "in which machine i does not change state, its limit is exactly the old limit minus the decrements logged for i, floored at 0 -- self-transitions never "
         "refresh, other machines never consume), C07_countdown (decrement, withdrawal of the pending action and immediate LimitReached), C07_refresh, C07_others. "
         "State changes and decrements are read off the ghost log, which the hook log comparison ties to the code.", "DESIGN.md section 4, C07"),
 "C08": ("Theorems C08_update (functional specification of update_counter: saturating increment/decrement/set with 1, a sampled value or the other counter's "
         "pre-transition value; CounterZero raised exactly on non-zero -> zero with that machine's zeroed-once flag unset, before the entered state's action; "
         "precedence of the action scheduled by the CounterZero transition), C08_saturating, C08_once (CounterZero events for machine i plus its unset flags <= 2 "
         "in every call: at most one per counter per machine per call).", "DESIGN.md section 4, C08"),
 "C09": ("Theorems C09_call / C09_at_most_one / C09_signallers / C09_targets over the ghost log: with nobody signalling nothing is delivered; a lone "
         "signaller (however often it signals) is excluded and every other machine index receives exactly one Signal, the signaller receiving one only if "
         "a machine answered during the round; two or more distinct signallers reach every index exactly once; the delivery list never contains a duplicate "
         "and no pending signal survives the call. The log is tied to the code by the hook log comparison.", "DESIGN.md section 4, C09"),

 "C10": ("Theorem C10_solo_any: for EVERY configuration in which no machine can signal, ANY machine at position i (probabilistic transitions, any distributions), every history and tape: there is a list l of draws, "
         "an order-preserving sub-sequence of the tape prefix the combined run consumed (the machine's own draws), such that the machine running alone on the projected history on ANY tape starting with l "
         "consumes exactly l and returns, call by call, the actions it returned in the combined run. Theorem C10_solo: for EVERY configuration, every position i whose machine samples deterministically (probability-1 vectors, constant distributions) and every neighbour set "
         "without signal transitions (neighbours otherwise arbitrary and probabilistic), every history, start time and every PAIR of random tapes: the actions returned for machine i in the "
         "combined run equal, call by call, the actions of the machine running alone on the projected history (events addressed to neighbours mapped to an unknown id), up to its id; "
         "C10_solo_total: both runs exist for valid configurations. Two-run simulation over transition (induction on fuel), built on the frame lemmas C10_step_frame / C10_decrement_frame "
         "and the accounting projection. The differential runs deterministic machines next to arbitrary neighbours and alone, on the implementation and on the model, and re-runs an arbitrary probabilistic machine alone on the real code "
         "with a random source replaying exactly the words it drew next to its neighbours.", "DESIGN.md section 0 and 4, C10"),

 "C12": ("Theorems C12_sound (validate_machine m = true -> WF_machine m, WF stated over real numbers from the documentation: fractions real in [0,1], "
         "probabilities real in (0,1], f32 sums in (0,1], targets in range without duplicates, distribution parameters in their documented domains), "
         "C12_nan_rejected, C12_framework_new (same judgement; a framework from accepted machines and fractions in [0,1] never fails). The model's validators are "
         "compared with Machine::validate, Framework::new, Machine::from_str and Machine::new on adversarial machines.", "DESIGN.md section 4, C12"),

 "C13": ("PARTIAL (the ten rand_distr samplers are third-party code: their result is universally quantified, their termination is not proved). Theorems C13_range "
         "(for every raw sampler value incl. NaN/inf and every start/max, Dist::sample is non-NaN, non-negative and <= max when max > 0 -- Flocq), C13_consumers "
         "(timeouts/durations <= 24 h, limits and counter values within u64), C13_unwrap (constructors cannot fail on validated distributions), C13_uniform_pre, "
         "C13_uniform_progress_partial (the Uniform rejection loop accepts the draw 0). Promptness is explored in child processes under scripted RNG prefixes; two genuine "
         "sampler defects found there (Binomial hang F11, Binomial panic F12) are recorded known findings.", "DESIGN.md section 4, C13"),

 "C06": ("Theorems C06_thresholds (for every one of the 2^23 draw values k and every validated vector, sample_state chooses target j exactly when "
         "thr S_(j-1) <= k < thr S_j, with S_j the f32 partial sums and thr S = ceil(S * 2^23) computed exactly; no transition beyond the last threshold), "
         "C06_threshold_exact (k/2^23 < S <-> k < thr S, Flocq binary32), C06_draw_exact, C06_one (probability 1 is always taken), C06_none. The tie enumerates the "
         "complete draw space on the real code and compares exact counts with the thresholds.", "DESIGN.md section 4, C06"),

 "C11": ("PARTIAL (zlib, SHA-256, the allocator and the legacy v1 parser are outside the proof). Theorems C11_base64_roundtrip, C11_bincode_roundtrip, "
         "C11_bincode_trailing_rejected (codec inductions over the full Machine type, varint/LE/Option/Vec/array/enum), C11_roundtrip (with the recorded flate2 "
         "contract: from_str (serialize m) = m for every validated machine whose encoding fits 1 MiB), C11_reject_or_valid (for every string and every behaviour "
         "of zlib, from_str returns an error or a validated machine). The Coq codecs are compared byte for byte with the bincode and base64 crates, and the real "
         "pipeline and v1 parser are run on hostile strings under catch_unwind. The legacy v1 parser is modelled slice by slice (Model/Codec/V1.v): C11_v1_never_panics (no byte string makes parse_v1 panic) and C11_v1_valid; it is compared with the real parse_v1_machine on mutated and structured payloads.", "DESIGN.md section 0 and 4, C11"),

 "C20": ("PARTIAL (deallocation by maybenot_stop and UB-freedom of the unsafe blocks are runtime properties outside the model). Theorems C20_on_events "
         "(with non-null arguments the actions written are exactly map convert_action of what trigger_events returns, in order, their count reported and never above "
         "num_machines -- via the C04 slot theorem, so the zip with the caller's buffer never truncates or overruns), C20_fields, C20_duration_split, C20_null, "
         "C20_start (result code: NullPointer iff out is null; Ok iff UTF-8, every line parses and fractions in [0,1]). The extern \"C\" functions are called with "
         "canary-surrounded buffers and compared with the model and the Rust framework.", "DESIGN.md section 4, C20"),
 "C14": ("Theorem C14_identity: for EVERY non-empty time-sorted trace (bursts, gaps up to Duration::MAX), every delay including 0, every tape and fuel: with no machines and all events recorded, "
         "whenever the simulation of the parsed trace returns, every event is one of the four packet events without padding or flags, the client's TunnelSent times are exactly (as multisets) the "
         "trace's send times, its TunnelRecv times exactly the receive times, and the server shows the mirror image shifted by the delay. Proved by a loop invariant over sim_loop with an exact model "
         "of std BinaryHeap (heap order lemmas), and C14_window: a trace never trips the pps bottleneck parse_trace derives from it (1 s counts <= 10 x maximal 100 ms count), so no hypothesis on "
         "the limit remains. Output filters are projections by C19_projection. The model is tied to sim()/sim_advanced()/parse_trace by the differential, including the derived pps value.", "DESIGN.md section 0 and 4, C14"),

 "C15": ("Theorems C15_causality (for all machine sets, base-only queues, delays, pps limits, tapes: for every side, kind and time T the TunnelRecv events up to T are at most "
         "the other side's TunnelSent of that kind sent at least one delay before T -- the counting form), C15_matching (the literal form, derived by a combinatorial lemma: an injective assignment of every TunnelRecv to a distinct TunnelSent of the other side and same kind sent at least one delay before), C15_conservation (NormalSent <= share, "
         "normal TunnelSent <= NormalSent, peer TunnelRecv <= TunnelSent, peer NormalRecv <= TunnelRecv), C15_complete (exactly the share when the run stops because all normal packets were "
         "processed; sim_loop_r is the loop returning its stop reason, proved equal to sim_loop), C15_sorted. Proved by a counting invariant over the whole main loop (induction on its fuel), "
         "heap operations handled as permutations. The simulator model is tied to sim_advanced by the trace-level differential (every draw of both frameworks recorded).", "DESIGN.md section 0 and 4, C15"),

 "C16": ("Theorems C16_trace (whole runs on parsed traces, over the returned trace and the actions only: after a BlockingBegin of a side caused by a BlockOutgoing of positive duration and until the next "
         "BlockingEnd of that side, every TunnelSent of that side carries the bypass flag: nothing else leaves a blocked side), C16_no_leak (EVERY TunnelSent of EVERY returned trace was released in a "
         "reachable state in which its side was not blocking, or blocking bypassably with the packet carrying the bypass flag), C16_block_rule (start / replace / longest-of; the bypass flag is set by a "
         "start or replace and and-ed by an extension), C16_blocking_end (every BlockingEnd is the expiry of that side's blocking, at the expiry, clearing it), C16_bypass_origin, C16_zero_duration_refuted "
         "(known finding F8), C16_fail_closed (whole runs: if no BlockOutgoing action returned so far for a side allows bypass, nothing at all is tunnel-sent by that side between a positive-duration BlockingBegin and the "
         "next BlockingEnd), C16_bypass_needs_block (a TunnelSent leaving a blocking side carries the bypass flag and some earlier block action of that side allowed bypass). C16_bypass_all (whole runs, trace and actions only: the blocking descriptor of a side -- expiry, EVERY contributing action allowed bypass -- is replayed from the reported BlockingBegin/BlockingEnd "
         "events and their causing actions by the contract rule; every TunnelSent is justified by the replay: the side is not blocking, or all contributors allowed bypass and the packet carries the bypass flag, "
         "or the same one step ahead for the single BlockingBegin that fired in that instant and is reported right after, or the run was cut in that instant), C16_contributors (the flag is the conjunction over "
         "the contributing actions, each the cause of a BlockingBegin reported since the last BlockingEnd), C16_end_trace (every BlockingEnd exactly at the replayed expiry; time never passes the replayed expiry; "
         "one end per blocking; the end after its begin -- each except in the zero-duration-replace corner of F8), C16_literal_rule_refuted (the literal rule is refuted by a zero-duration replacing block on a real run). "
         "Fixes F10 and F14 were found by this check.", "DESIGN.md section 0 and 4, C16"),

 "C17": ("Theorem C17_trace (whole runs on parsed traces recording all events): the returned trace is the event column of a history H (each processed event with the actions its side's framework "
         "returned) in which every PaddingSent/BlockingBegin for machine m is caused by an earlier record of the same side holding a SendPadding/BlockOutgoing action for m, happens exactly at issue "
         "time + timeout with the action's flags, with every later action-timer action for m (newer action or Cancel) before it issued no earlier than the completion time (not superseded before it "
         "was due), and the assignment completion -> cause is injective (fires at most once). Plus the step contracts C17_slot, C17_fire, C17_only_by_firing, C17_earliest and C17_not_past (no event of "
         "any trace is later than a timer still pending: an action that is not superseded fires before time passes it). Theorem C17_fires_when_due (whole runs, the converse, same history and cause assignment): an action whose due time simulated time has "
         "moved past either fired -- its completion is reported in between, on that side, exactly at the due time -- or a newer action-timer action for that machine was returned no later than the due time. "
         "Fix F14 was found by this check's monitor.", "DESIGN.md section 0 and 4, C17"),

 "C18": ("Theorem C18_trace (whole runs on parsed traces recording all events): in the history H every TimerBegin for m follows an UpdateTimer for m returned on that side at that same instant; every "
         "TimerEnd for m is reported exactly at issue time + duration of an earlier UpdateTimer for m of that side, every later timer action for m before it (UpdateTimer or Cancel of the internal "
         "timer) having been issued no earlier than that expiry or being a non-replacing update not reaching beyond it (never for a cancelled or superseded timer). Plus C18_update (fold of the "
         "contract), C18_begins (exactly one TimerBegin at that instant per update that set the timer), C18_end, C18_only_by_firing, C18_earliest, C18_not_past. Theorem C18_live_gen (whole runs, the converse, for EVERY run): with the timer replayed from the history by the contract (a reported "
         "TimerEnd clears it only if it carries the replayed expiry; otherwise it is the previous timer's end reported after a re-arm of the same instant), an update that sets or changes the timer is "
         "followed by a TimerBegin at that instant, a replayed expiry that time moves past is followed by a TimerEnd exactly there unless a timer action came first, and every TimerEnd is attributed to an "
         "earlier UpdateTimer with exactly that expiry by a strictly increasing assignment (once per timer). C18_live: the same with the naive replay when no block allows bypass; C18_literal_replay_refuted: "
         "the naive replay fails on a real run with bypassable blocking. Fix F7 was found by this check.", "DESIGN.md section 0 and 4, C18"),

 "C19": ("Theorems C19_projection (no trace-length bound: the filtered run equals the filter of the unfiltered run, Panic/OutOfFuel included), C19_projection_bounded (bound M > 0: the filtered run returns exactly "
         "the first M elements of the filtered trace of the unfiltered, unbounded run), C19_no_assertion (sim_advanced never returns Panic -- no BUG assertion, unwrap or index failure -- for every non-empty "
         "well-routed queue, machines with in-range targets and a total clock), C19_std_clock (real std clock: the only possible panic is the Duration overflow inside an embedded framework, finding F6 of C01), "
         "C19_time (the time-backwards check is dead code, the trace is sorted, the final sort is the identity), C19_bounds (trace-length and iteration bounds respected, pick_next's recursion ends). "
         "Reproducibility: the model is a function of (machines, queue, args, tape); the monitor runs every case twice and compares; simulations run in a supervised child process so that a run that does "
         "not return is reported as a violation. Fix F9 (pps = 2^32) was found by this check.", "DESIGN.md section 0 and 4, C19"),
}

NOT_YET = "check not built yet (in progress; planned per DESIGN.md section 7)"

def main():
    hooks_commits = ["8795b76", "685947b", "f1f74f7", "8e1ea09"]
    m = {
     "version": 1,
     "setup_cmd": "bin/vcheck setup",
     "hooks": {
      "guard": "cargo feature `verif` of crate maybenot (off by default)",
      "enable": "the harness crate /verif/harness depends on maybenot with features = [\"verif\", \"parsing\"]",
      "baseline_off_cmd": "cd /repo && CARGO_NET_OFFLINE=true cargo test --workspace --no-fail-fast --offline",
      "source_commits": hooks_commits,
      "add_only": True
     },
     "engines": [
      {"name": "coq-model", "path": "coq", "serves_properties": sorted(CLAIMS), "kind_free_text": "hand-written executable Gallina model + theorems (Coq 8.16.1, Flocq); extracted to OCaml for the correspondence run"},
      {"name": "harness", "path": "harness", "serves_properties": sorted(CLAIMS), "kind_free_text": "Rust differential harness: generates cases, runs the real code with the verif hooks, prints canonical output compared with the model's; per-property monitors search for failing inputs"}
     ],
     "checks": [],
     "not_applicable": [],
     "notes": "Properties are claimed once their theorem file and correspondence class are built; see DESIGN.md."
    }
    for pid in sorted(CLAIMS):
        text, ref = CLAIMS[pid]
        m["checks"].append({
          "property_id": pid,
          "quick_cmd": "bin/vcheck check %s --tier quick" % pid,
          "thorough_cmd": "bin/vcheck check %s --tier thorough" % pid,
          "evidence_file": "evidence/%s.json" % pid,
          "replay_cmd_template": "bin/vcheck check %s --replay {path}" % pid,
          "engine": "coq-model",
          "level_claimed": {"category": "proof", "text": text, "design_ref": ref},
          "level_note": NOTE,
          "technique": TECH,
        })
    for i in range(1, 21):
        pid = "C%02d" % i
        if pid not in CLAIMS:
            m["not_applicable"].append({"property_id": pid, "reason": NOT_YET})
    json.dump(m, open(os.path.join(ROOT, "MANIFEST.json"), "w"), indent=1)
    print("MANIFEST.json: %d checks, %d not claimed" % (len(m["checks"]), len(m["not_applicable"])))

if __name__ == "__main__":
    main()
