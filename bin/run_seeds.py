#!/usr/bin/env python3
"""Apply each seeded change to /repo, run the named checks, undo, record what detected it.
usage: bin/run_seeds.py [seed-name ...] [--checks C01,C05]"""
import sys, os, json, subprocess, glob
ROOT = os.path.dirname(os.path.dirname(os.path.abspath(__file__)))
def sh(cmd, cwd=ROOT):
    p = subprocess.run(cmd, cwd=cwd, shell=True, stdout=subprocess.PIPE, stderr=subprocess.STDOUT)
    return p.returncode, p.stdout.decode()
args = [a for a in sys.argv[1:] if not a.startswith("--")]
checks_override = None
for a in sys.argv[1:]:
    if a.startswith("--checks"):
        checks_override = a.split("=", 1)[1].split(",")
claimed = [c["property_id"] for c in json.load(open(os.path.join(ROOT, "MANIFEST.json")))["checks"]]
seeds = args or sorted(os.path.basename(d) for d in glob.glob(os.path.join(ROOT, "seeded", "*")) if os.path.isdir(d))
rc, out = sh("git -C /repo status --short")
if out.strip():
    sys.exit("/repo working tree is not clean:\n" + out)
for name in seeds:
    d = os.path.join(ROOT, "seeded", name)
    meta = json.load(open(os.path.join(d, "meta.json")))
    prop = meta["breaks_property"]
    # C05 (the whole-state differential of the framework) is run as a cross-check for the framework properties
    fw_prop = prop in ("C01", "C02", "C03", "C04", "C05", "C06", "C07", "C08", "C09", "C10", "C12", "C13")
    checks = checks_override or [c for c in dict.fromkeys([prop] + (["C05"] if fw_prop else [])) if c in claimed]
    rc, out = sh("git -C /repo apply %s/patch.diff" % d)
    if rc != 0:
        print(name, "PATCH DOES NOT APPLY", out); continue
    res = {}
    try:
        for c in checks:
            rc, out = sh("bin/vcheck check %s --tier quick" % c)
            v = [l for l in out.split("\n") if l.startswith("VIOLATION") or l.startswith("DETAIL")]
            res[c] = {"exit": rc, "lines": v[:3]}
    finally:
        sh("git -C /repo checkout -- .")
    meta["detected_by"] = res
    json.dump(meta, open(os.path.join(d, "meta.json"), "w"), indent=1)
    print(name, {c: ("DETECTED" if r["exit"] == 1 else "missed") for c, r in res.items()})
rc, out = sh("git -C /repo status --short")
assert not out.strip(), out
# the harness binary still contains the last seeded change: rebuild it from the restored tree
sh("CARGO_NET_OFFLINE=true cargo build --profile checked --offline", cwd=os.path.join(ROOT, "harness"))
