#!/bin/bash
# usage: confirm_seed.sh <PROP> <name> [crate]   (worktree /tmp/mut-<PROP> prepared by a sub-agent)
# Confirms in the scratch worktree that (1) the existing suite passes with the patch, (2) the
# demonstration fails with the patch and passes without it; stores the seed under /verif/seeded/<name>/.
set -u
P=$1; NAME=$2; CR=${3:-maybenot}; W=${4:-/tmp/mut-$P}; p=$(echo $P | tr A-Z a-z)
OUT=/verif/seeded/$NAME; mkdir -p $OUT
cd $W || exit 2
export CARGO_NET_OFFLINE=true CARGO_TARGET_DIR=$W/target
git checkout -q -- . ; rm -f crates/$CR/tests/demo_$p.rs
git apply OUT/patch.diff || { echo "patch does not apply"; exit 2; }
suite=$(cargo test --workspace --no-fail-fast --offline 2>&1 | grep -E "^test result" | awk '{p+=$4; f+=$6} END {print p" passed "f" failed"}')
mkdir -p crates/$CR/tests; cp OUT/demo_$p.rs crates/$CR/tests/demo_$p.rs
cargo test -p $CR --test demo_$p --offline > /tmp/demo_with_$P.log 2>&1; with_rc=$?
git checkout -q -- crates
cargo test -p $CR --test demo_$p --offline > /tmp/demo_without_$P.log 2>&1; without_rc=$?
rm -f crates/$CR/tests/demo_$p.rs
echo "suite_with_patch: $suite ; demo with patch rc=$with_rc ; demo without patch rc=$without_rc"
cp OUT/patch.diff $OUT/patch.diff; cp OUT/demo_$p.rs $OUT/; cp OUT/notes.md $OUT/notes.md
python3 - "$P" "$NAME" "$suite" "$with_rc" "$without_rc" <<'PY'
import json,sys
P,NAME,suite,w,wo=sys.argv[1:6]
json.dump({"breaks_property":P,"name":NAME,
 "source":"independent sub-agent given only the property text and a scratch worktree",
 "confirmed":{"existing_suite_with_patch":suite,"demo_exit_code_with_patch":int(w),"demo_exit_code_without_patch":int(wo),
   "commands":["git apply patch.diff","cargo test --workspace --no-fail-fast --offline","cargo test -p $CR --test demo --offline (with and without the patch)"]},
 "needs_to_manifest":"see notes.md","detected_by":[]},open("/verif/seeded/%s/meta.json"%NAME,"w"),indent=1)
PY
