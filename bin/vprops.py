"""Per-property configuration of the checks."""

TRUSTED_BASE = [
    "Coq 8.16.1 kernel (coqc); vm_compute used in Example/_refuted lemmas and the sample re-evaluation; no native_compute",
    "Flocq 4.1.0 as the definition of IEEE-754 binary32/binary64 (BinarySingleNaN, Bits)",
    "extraction with ExtrOcamlBasic only (no Extract Constant / Extract Inductive of our own), OCaml 4.13.1, 60-line driver coq/Extract/main.ml",
    "the correspondence check: Rust harness generators, verif hook recorder in /repo (feature verif), canonical printers, Model/Wire.v",
    "modelled rather than verified: framework.rs, state.rs::sample_state, dist.rs::sample (clamp), action.rs sampling glue, counter.rs; rand_distr samplers and the RNG are an oracle tape",
]

FW_RULE = ("cases = random validated machine sets x call histories drawn from one SplitMix64 state (VERIF_SEED); "
           "each case is run on the real Framework (hooks record every draw) and on the extracted Coq model with the "
           "observed tape; all output lines (snapshot, actions, step count, internal log) must be equal. "
           "A case is non-trivial when %s; distinct = distinct wire encodings.")

SIM_RULE = ("cases = fixed regression cases (the witnesses of findings F7-F10, F14) followed by generated simulations drawn from one SplitMix64 state (VERIF_SEED): "
            "traces of 1-40 packets (both directions, bursts with equal timestamps, gaps 0 ns .. 1 s; one in ten starting beyond 2^53 ns, one in eight written unsorted), network delay 0 .. 50 ms, queue built by parse_trace or by direct pushes, "
            "optional pps limit, 0-4 machines per side (random validated machines; in half of the cases role machines -- blockers, padders, timers, cancellers with constant "
            "timings from small sets and all bypass/replace combinations -- so that timers of several machines collide and overlap), all framework fractions, "
            "stop conditions and output filters. Each case runs the real sim_advanced with the verif recorder armed (every RNG-derived draw of both frameworks, in call order) "
            "and the extracted Coq model of the simulator with that tape: the returned traces (time, side, event, machine, padding/bypass/replace flags) and the trace-derived "
            "pps limit must be equal line by line. %s For C15-C19 an implementation-only probe (c19long, under probes) evaluates the same monitor on runs of 66 000 to 120 000 iterations. Non-trivial = the trace contains padding, blocking or timer events; distinct = distinct wire encodings.")

# /repo commit the development was last validated against (see vcheck.repo_drift)
PINNED_REPO_HEAD = "623cd5cf78b8f9b91772e7577baf06e9615e4078"

PROPS = {
    "C14": {
        "sub": "sim",
        "search_n": {"quick": 30000, "thorough": 300000},
        "shards": {"quick": 1, "thorough": 12},
        "n": {"quick": 1500, "thorough": 360000},
        "coq_sample": {"quick": 6, "thorough": 40},
        "rule": SIM_RULE % "The monitor requires, with no machines: the multiset of client TunnelSent times equals the trace's send times, client TunnelRecv times equal its receive times, the server side is the mirror image shifted by the delay, no other kind of event, sim() agrees with sim_advanced(), and truncated runs are sub-multisets.",
        "trusted_extra": ['modelled rather than verified (simulator): lib.rs (sim_advanced, pick_next, do_scheduled_action, do_internal_timer, trigger_update, parse_trace), queue.rs, queue_event.rs, queue_peek.rs, network.rs, delay.rs WITHOUT integration delays; std BinaryHeap is modelled exactly (sift_up / sift_down_to_bottom); Instants are unbounded integers (ns), so overflow panics of Instant arithmetic are outside the model', 'the monitors of the simulator properties recover the actions by replaying the returned trace through fresh frameworks seeded as SimState::new does (Xoshiro256StarStar::seed_from_u64(seed), seed+1 for the server)'],
        "assumptions": ["no integration delays (the properties exclude them)", "times within the range of std::time::Instant"],
    },
    "C15": {
        "extra": [{"sub": "c19long", "dir": "C15-long", "args": ["--prop", "C15"], "n": {"quick": 4, "thorough": 40}}],
        "sub": "sim",
        "search_n": {"quick": 30000, "thorough": 300000},
        "shards": {"quick": 1, "thorough": 12},
        "n": {"quick": 1500, "thorough": 360000},
        "coq_sample": {"quick": 6, "thorough": 40},
        "rule": SIM_RULE % 'The monitor requires: trace ordered by time; every TunnelRecv matched (greedily, earliest unmatched) to an earlier TunnelSent of the other side and same kind at least one delay before; no side sends or receives more normal packets than its share, exactly its share when the run ended with all normal packets processed.',
        "trusted_extra": ['modelled rather than verified (simulator): lib.rs (sim_advanced, pick_next, do_scheduled_action, do_internal_timer, trigger_update, parse_trace), queue.rs, queue_event.rs, queue_peek.rs, network.rs, delay.rs WITHOUT integration delays; std BinaryHeap is modelled exactly (sift_up / sift_down_to_bottom); Instants are unbounded integers (ns), so overflow panics of Instant arithmetic are outside the model', 'the monitors of the simulator properties recover the actions by replaying the returned trace through fresh frameworks seeded as SimState::new does (Xoshiro256StarStar::seed_from_u64(seed), seed+1 for the server)'],
        "assumptions": ["no integration delays (the properties exclude them)", "times within the range of std::time::Instant"],
    },
    "C16": {
        "extra": [{"sub": "c19long", "dir": "C16-long", "args": ["--prop", "C16"], "n": {"quick": 4, "thorough": 40}}],
        "sub": "sim",
        "search_n": {"quick": 30000, "thorough": 300000},
        "shards": {"quick": 1, "thorough": 12},
        "n": {"quick": 1500, "thorough": 360000},
        "coq_sample": {"quick": 6, "thorough": 40},
        "rule": SIM_RULE % 'The monitor replays the trace through fresh frameworks to recover the BlockOutgoing/SendPadding actions and requires: BlockingEnd exactly once at the expiry computed by the start / replace / longest-of rule, no TunnelSent of a blocked side before the expiry unless the blocking is bypassable (every extending action allowed bypass) and the packet carries the bypass flag. Zero-duration blocks are the known finding F8.',
        "trusted_extra": ['modelled rather than verified (simulator): lib.rs (sim_advanced, pick_next, do_scheduled_action, do_internal_timer, trigger_update, parse_trace), queue.rs, queue_event.rs, queue_peek.rs, network.rs, delay.rs WITHOUT integration delays; std BinaryHeap is modelled exactly (sift_up / sift_down_to_bottom); Instants are unbounded integers (ns), so overflow panics of Instant arithmetic are outside the model', 'the monitors of the simulator properties recover the actions by replaying the returned trace through fresh frameworks seeded as SimState::new does (Xoshiro256StarStar::seed_from_u64(seed), seed+1 for the server)'],
        "assumptions": ["no integration delays (the properties exclude them)", "times within the range of std::time::Instant"],
    },
    "C17": {
        "extra": [{"sub": "c19long", "dir": "C17-long", "args": ["--prop", "C17"], "n": {"quick": 4, "thorough": 40}}],
        "sub": "sim",
        "search_n": {"quick": 30000, "thorough": 300000},
        "shards": {"quick": 1, "thorough": 12},
        "n": {"quick": 1500, "thorough": 360000},
        "coq_sample": {"quick": 6, "thorough": 40},
        "rule": SIM_RULE % "The monitor replays the trace through fresh frameworks and requires: every PaddingSent/BlockingBegin is the completion of the machine's pending action, exactly at issue time + timeout, with the action's flags, once; superseded or cancelled actions never fire; no pending action is overdue when simulated time advances. Ties at one instant are resolved by backtracking over both orders.",
        "trusted_extra": ['modelled rather than verified (simulator): lib.rs (sim_advanced, pick_next, do_scheduled_action, do_internal_timer, trigger_update, parse_trace), queue.rs, queue_event.rs, queue_peek.rs, network.rs, delay.rs WITHOUT integration delays; std BinaryHeap is modelled exactly (sift_up / sift_down_to_bottom); Instants are unbounded integers (ns), so overflow panics of Instant arithmetic are outside the model', 'the monitors of the simulator properties recover the actions by replaying the returned trace through fresh frameworks seeded as SimState::new does (Xoshiro256StarStar::seed_from_u64(seed), seed+1 for the server)'],
        "assumptions": ["no integration delays (the properties exclude them)", "times within the range of std::time::Instant"],
    },
    "C18": {
        "extra": [{"sub": "c19long", "dir": "C18-long", "args": ["--prop", "C18"], "n": {"quick": 4, "thorough": 40}}],
        "sub": "sim",
        "search_n": {"quick": 30000, "thorough": 300000},
        "shards": {"quick": 1, "thorough": 12},
        "n": {"quick": 1500, "thorough": 360000},
        "coq_sample": {"quick": 6, "thorough": 40},
        "rule": SIM_RULE % 'The monitor replays the trace through fresh frameworks and requires: each TimerBegin follows an UpdateTimer of that machine at that instant, each timer-setting UpdateTimer (replace, none running, later expiry) is followed by a TimerBegin at that instant, TimerEnd exactly once at the computed expiry and never for a cancelled or superseded timer.',
        "trusted_extra": ['modelled rather than verified (simulator): lib.rs (sim_advanced, pick_next, do_scheduled_action, do_internal_timer, trigger_update, parse_trace), queue.rs, queue_event.rs, queue_peek.rs, network.rs, delay.rs WITHOUT integration delays; std BinaryHeap is modelled exactly (sift_up / sift_down_to_bottom); Instants are unbounded integers (ns), so overflow panics of Instant arithmetic are outside the model', 'the monitors of the simulator properties recover the actions by replaying the returned trace through fresh frameworks seeded as SimState::new does (Xoshiro256StarStar::seed_from_u64(seed), seed+1 for the server)'],
        "assumptions": ["no integration delays (the properties exclude them)", "times within the range of std::time::Instant"],
    },
    "C19": {
        "extra": [{"sub": "c19long", "dir": "C19-long", "n": {"quick": 4, "thorough": 40}}],
        "sub": "sim",
        "search_n": {"quick": 30000, "thorough": 300000},
        "shards": {"quick": 1, "thorough": 12},
        "n": {"quick": 1200, "thorough": 240000},
        "coq_sample": {"quick": 6, "thorough": 40},
        "rule": SIM_RULE % 'The monitor runs every case twice (identical traces), compares the three filtered runs with the projections of the unfiltered run (prefix of max_trace_length elements when bounded), and requires no panic (pps limits include 2^32), non-decreasing time and the configured bounds. An implementation-only probe (c19long, listed under probes) repeats this on runs of 66 000 to 120 000 iterations with trace-length bounds below and above 2^16 (the model run is fuelled for 6000 iterations).',
        "trusted_extra": ['modelled rather than verified (simulator): lib.rs (sim_advanced, pick_next, do_scheduled_action, do_internal_timer, trigger_update, parse_trace), queue.rs, queue_event.rs, queue_peek.rs, network.rs, delay.rs WITHOUT integration delays; std BinaryHeap is modelled exactly (sift_up / sift_down_to_bottom); Instants are unbounded integers (ns), so overflow panics of Instant arithmetic are outside the model', 'the monitors of the simulator properties recover the actions by replaying the returned trace through fresh frameworks seeded as SimState::new does (Xoshiro256StarStar::seed_from_u64(seed), seed+1 for the server)'],
        "assumptions": ["no integration delays (the properties exclude them)", "times within the range of std::time::Instant"],
    },
    "C20": {
        "sub": "c20",
        "n": {"quick": 2000, "thorough": 150000},
        "coq_sample": {"quick": 20, "thorough": 200},
        "rule": ("cases = 0-4 deterministic machines (probability-1 transitions, constant distributions, no time-dependent limits) started through maybenot_start "
                 "(valid arguments, and each invalid kind: null out pointer, non-UTF-8 string, a line that is not a machine, a fraction outside [0,1]/NaN, CRLF line "
                 "endings) and driven through maybenot_on_events with batches of 0-6 events over all 10 event types and arbitrary machine ids, the output buffer having "
                 "exactly num_machines slots between canary regions; every written action, the count, the result codes and the null-argument behaviour must equal the "
                 "model's and the Rust framework's run side by side. Non-trivial = at least one action was written."),
        "assumptions": ["deterministic machines only (the API's OS-seeded RNG and wall clock then cannot matter)",
                        "deallocation and UB-freedom of the unsafe blocks are not decided by this check"],
    },
    "C11": {
        "sub": "c11",
        "n": {"quick": 1500, "thorough": 60000},
        "coq_sample": {"quick": 12, "thorough": 100},
        "rule": ("cases of six kinds drawn from one SplitMix64 state, built from generated valid machines (1-2000 states, all action/distribution/counter variants, "
                 "extreme numeric fields): (0) the real bincode encoding must equal the model's ser_machine byte for byte; (1) base64 text of real compressed payloads / "
                 "random bytes must equal b64_encode; (2) base64 decoding of mutated texts (bad symbols, padding in wrong places, non-canonical trailing bits, wrong "
                 "length) must agree on accept/reject and value; (3,4) bincode decoding of mutated bytes must agree on accept/reject, validation verdict and canonical "
                 "re-encoding; (5) the real pipeline: from_str(serialize(m)) re-serializes identically (same name), and hostile strings (mutated payloads re-compressed, "
                 "zlib bombs of 1-5 MiB, wrong versions, truncations, non-ASCII, random bytes; mutated legacy v1 blobs) are rejected or yield a validated machine, "
                 "without panicking. Non-trivial/distinct = distinct case encodings."),
        "timeout": 3000,
        "assumptions": ["zlib (flate2), SHA-256 and the allocator are oracles; memory use is not measured by this check"],
    },
    "C06": {
        "sub": "c06",
        "n": {"quick": 60, "thorough": 3000},
        "coq_sample": {"quick": 60, "thorough": 400},
        "rule": ("first, rand's f32 draw is checked to be (word >> 9) / 2^23 for all 2^23 values of the top 23 bits (varied low bits); then cases = a generated "
                 "transition vector (1-8 targets incl. both pseudo-states; sums from 2e-20 to exactly 1; probabilities at the resolution limit of the draw and of f32; "
                 "0.1+0.2+0.7-style sums) for which the real State::sample_state is driven by a counting RNG through ALL 2^23 draw values; the exact cumulative "
                 "per-target counts must equal the model's closed-form integer thresholds, and each count must be within 2 draws of probability * 2^23. "
                 "Non-trivial = a validated vector (exhaustively enumerated)."),
        "timeout": 3000,
    },
    "C13": {
        "sub": "c13",
        "n": {"quick": 1500, "thorough": 60000},
        "coq_sample": {"quick": 25, "thorough": 300},
        "rule": ("cases = a validated distribution from one of the 11 families at parameter corners (probability 1e-9, 1e9 trials, lambda 1e42, subnormal/huge/infinite "
                 "scales, low==high, NaN/inf/negative start and max) x a scripted RNG prefix (all-zero, all-one, alternating, mixed extreme words; then a fair stream); "
                 "12 samples are drawn in a child process that is killed after 2.5 s; every raw sampler value recorded by the hook is replayed through the Coq model's "
                 "clamp and the three integer readings (timeout/duration, limit, counter value) must equal the implementation's. Non-trivial = at least one sample returned."),
        "timeout": 3000,
    },
    "C12": {
        "sub": "c12",
        "n": {"quick": 6000, "thorough": 400000},
        "coq_sample": {"quick": 25, "thorough": 300},
        "rule": ("cases = a generated valid machine with 0-2 adversarial mutations (NaN with several payloads, +-inf, -0.0, subnormals, one ulp beyond each bound on every "
                 "numeric field incl. distribution parameters, out-of-range/duplicate targets, empty transition vectors via deserialisation, empty state list) and "
                 "framework fractions drawn from the same pool; the real Machine::validate, Framework::new, Machine::from_str(serialize) and Machine::new verdicts must "
                 "equal the Coq model's validate_machine / valid_cfg, and everything accepted must satisfy an independent well-formedness predicate. "
                 "Non-trivial = a mutated machine (distinct encodings)."),
    },
    "C10": {
        "sub": "fw",
        "n": {"quick": 2500, "thorough": 200000},
        "coq_sample": {"quick": 20, "thorough": 200},
        "rule": ("pairs of cases drawn from one SplitMix64 state: a deterministic machine M (probability-1 transitions, constant distributions, counters, limits, "
                 "budgets, no SIGNAL target) at a random position among 0-3 arbitrary neighbours (which cannot signal it if M reacts to Signal), and M alone on the "
                 "projected history (events addressed to M renamed to 0, to others to an unknown id); framework fractions unset. Both runs are executed on the real "
                 "Framework and on the extracted Coq model (all output lines equal), and M's action stream must be identical in both runs. Non-trivial = M returned an action. "
                 "In addition, per case, one pair with an ARBITRARY non-signalling machine (probabilistic transitions, sampled timeouts/limits/counter values) next to "
                 "arbitrary non-signalling neighbours is run on the real Framework only: a tagging random source notes the words drawn while the framework steps the "
                 "machine (verif log), the solo run replays exactly those words, and the actions and the number of words consumed must agree (theorem C10_solo_any); "
                 "probabilistic_pairs_run_drew_acted in the input distribution counts them."),
    },
    "C01": {
        "sub": "fw",
        "n": {"quick": 3000, "thorough": 200000},
        "coq_sample": {"quick": 20, "thorough": 200},
        "rule": FW_RULE % "at least one action was returned (machines mix all action kinds, heavy-tailed/huge distributions, saturating counters, limits, both pseudo-states; batches of 0..8 events with foreign ids; clocks that stand still, jump and run backwards)",
        "extra": [{"sub": "c01std", "dir": "C01-std", "n": {"quick": 300, "thorough": 30000}}],
        "assumptions": ["virtual clock (u64 microseconds, saturating Duration add); std::time clock covered by the separate std-clock probe (known finding F6)",
                        "packet counters below 2^64"],
    },
    "C02": {
        "sub": "fw",
        "n": {"quick": 4000, "thorough": 300000},
        "coq_sample": {"quick": 20, "thorough": 200},
        "rule": FW_RULE % "a SendPadding action was returned by a machine that has a padding budget or fraction (scenario class: 1-4 padding machines with budgets 0..3 and fractions from {0,1e-9,1/3,0.5,0.75,1-1e-9,1} on machine and framework; single-event calls interleaving NormalSent, PaddingSent for own/other/unknown ids and all other events)",
        "assumptions": ["fewer than 2^53 packets reported (exact u64->f64 conversion)"],
    },
    "C03": {
        "sub": "fw",
        "n": {"quick": 4000, "thorough": 300000},
        "coq_sample": {"quick": 20, "thorough": 200},
        "rule": FW_RULE % "a BlockOutgoing action was returned (scenario class: 1-3 blocking machines with all replace/bypass combinations, allowed_blocked_microsec in {0,1,1000,1e6,u64::MAX}, fractions on machine and framework; single-event calls with BlockingBegin for any id, unpaired/repeated BlockingEnd; clock steps 0, tiny, huge and backwards; two thirds of the cases on the harness's microsecond clock, one third on the crate's std::time clock with nanosecond ticks)",
        "assumptions": ["virtual clock: exact-rational corollary for values below 2^53 us", "std::time clock: exact share below the limit times (1 + 2^-50) for durations below 2^53 s (C03_share_std_tolerance)"],
    },
    "C04": {
        "sub": "fw",
        "n": {"quick": 3000, "thorough": 200000},
        "coq_sample": {"quick": 20, "thorough": 200},
        "rule": FW_RULE % "at least one action was returned (heavy-tailed and huge distributions incl. NaN/inf start and max, batches of 0..16 events, machines reaching END via events, LimitReached, CounterZero and Signal)",
        "assumptions": ["virtual clock (1 tick = 1 microsecond) for the 24 h bound"],
    },
    "C07": {
        "sub": "fw",
        "divergence_is_counterexample": True,
        "divergence_parts": ["lim", "log2", "log3"],
        "n": {"quick": 4000, "thorough": 300000},
        "coq_sample": {"quick": 20, "thorough": 200},
        "rule": FW_RULE % "a limit was decremented (scenario class: 1-3 machines whose SendPadding/BlockOutgoing/UpdateTimer actions carry constant or sampled limits 0..5; calls of 1-2 events interleaving completions for the right machine, other machines and unknown ids with self-transitions, state changes and CounterZero round trips)",
    },
    "C08": {
        "sub": "fw",
        "divergence_is_counterexample": True,
        "divergence_parts": ["ca", "cb", "za", "zb", "log7"],
        "n": {"quick": 4000, "thorough": 300000},
        "coq_sample": {"quick": 20, "thorough": 200},
        "rule": FW_RULE % "a CounterZero was raised (scenario class: 1-3 machines sharing events, counters on 75%% of the states with all 3 operations x {unit, sampled, copy}, values driven to 0, 1 and around u64::MAX by huge constant distributions and saturating increments; CounterZero chains that update counters again)",
    },
    "C09": {
        "sub": "fw",
        "n": {"quick": 4000, "thorough": 300000},
        "coq_sample": {"quick": 20, "thorough": 200},
        "rule": FW_RULE % "some machine transitioned to the signal pseudo-state (scenario class: 1-4 machines with signalling transitions on external events, LimitReached, CounterZero and Signal; batches of 1-4 events; ended machines)",
    },
    "C05": {
        "sub": "fw",
        "divergence_is_counterexample": True,
        "n": {"quick": 3000, "thorough": 200000},
        "coq_sample": {"quick": 25, "thorough": 200},
        "rule": FW_RULE % "at least one action was returned",
    },
}
